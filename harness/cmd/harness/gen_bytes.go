package main

// gen_bytes.go — byte-level correspondence for transport/car request.Decode / response.Decode +
// message.NewMessage (coq/MessageBytes.v, coq/Check_Bytes.v).  Used by the C15 generator (every
// scripted reply body, raw or structured, goes through client.Execute AND request.Decode and is
// compared with the model's verdict on the same bytes), by the C20 generator (bodies through
// server.Request: 400 exactly when the model says "undecodable") and by the C11 generator (the
// statuses of its raw request stream).
//
// For every body the harness records
//   - the answers of go-multihash for the sections a reference walk (third-party code only) finds,
//     plus sha2-256 of every section payload (what block.Decode recomputes for the root block),
//   - go-ipld-cbor's verdict on header bytes that are not canonical,
//   - what the implementation returned: error, or root link / Invocations / Receipts / Get of the
//     lookup links / Blocks in order.
// Bodies are written as a mutation of a base body when that is shorter (Coq parses literals slowly).

import (
	"bufio"
	"bytes"
	"encoding/hex"
	"fmt"
	"io"
	"iter"
	"math/rand"
	"net/http"
	"os"
	"path/filepath"
	"strings"
	"time"

	"github.com/ipfs/go-cid"
	cbor "github.com/ipfs/go-ipld-cbor"
	ipldcar "github.com/ipld/go-car"
	"github.com/ipld/go-car/util"
	cidlink "github.com/ipld/go-ipld-prime/linking/cid"
	mh "github.com/multiformats/go-multihash"
	"github.com/storacha/go-ucanto/client"
	"github.com/storacha/go-ucanto/core/car"
	"github.com/storacha/go-ucanto/core/delegation"
	"github.com/storacha/go-ucanto/core/invocation"
	"github.com/storacha/go-ucanto/core/ipld"
	"github.com/storacha/go-ucanto/core/ipld/block"
	"github.com/storacha/go-ucanto/core/message"
	"github.com/storacha/go-ucanto/core/receipt"
	rdm "github.com/storacha/go-ucanto/core/receipt/datamodel"
	"github.com/storacha/go-ucanto/core/result"
	"github.com/storacha/go-ucanto/transport"
	"github.com/storacha/go-ucanto/transport/car/request"
	thttp "github.com/storacha/go-ucanto/transport/http"
	"github.com/storacha/go-ucanto/ucan"
)

// ---------------------------------------------------------------------------
// reference walk: hash answers and header oracle

func bytesWalk(arch []byte) (ref c12Ref) {
	ref.orc = "err"
	rd := bytes.NewReader(arch)
	br := bufio.NewReader(rd)
	pos := func() int { return len(arch) - rd.Len() - br.Buffered() }
	hb, err := util.LdRead(br)
	if err != nil {
		return
	}
	var ch ipldcar.CarHeader
	bad := false
	var rb []byte
	if p := recovered(func() {
		if err := cbor.DecodeInto(hb, &ch); err != nil {
			bad = true
			return
		}
		var err error
		rb, err = cbor.DumpObject(&ch)
		if err != nil {
			bad = true
		}
	}); p != nil || bad {
		return
	}
	ref.orc = "ok"
	if bytes.Equal(rb, hb) {
		ref.orc = "ok-canonical"
	}
	ref.orcVer = ch.Version
	for _, r := range ch.Roots {
		ref.orcRoots = append(ref.orcRoots, r.Bytes())
	}
	seen := map[string]bool{}
	add := func(e c12HE) {
		k := fmt.Sprintf("%d/%d/%d/%d", e.code, e.length, e.off, e.dlen)
		if !seen[k] {
			seen[k] = true
			ref.tbl = append(ref.tbl, e)
		}
	}
	sum := func(payload []byte, code uint64, length int, off int) {
		e := c12HE{code: code, length: uint64(length), off: off, dlen: len(payload)}
		recovered(func() {
			h, err := mh.Sum(payload, code, length)
			if err != nil {
				return
			}
			dm, err := mh.Decode(h)
			if err != nil {
				return
			}
			e.digest, e.ok = dm.Digest, true
		})
		add(e)
	}
	for {
		if _, err := br.Peek(1); err != nil {
			return
		}
		data, err := util.LdRead(br)
		if err != nil {
			continue
		}
		end := pos()
		n, c, err := cid.CidFromReader(bytes.NewReader(data))
		if err != nil {
			continue
		}
		payload := data[n:]
		off := end - len(payload)
		p := c.Prefix()
		if p.MhType != mh.IDENTITY {
			sum(payload, p.MhType, p.MhLength, off)
		}
		// block.Decode of the root block: sha2-256 of the bytes, whatever the CID says
		sum(payload, mh.SHA2_256, 32, off)
	}
}

// ---------------------------------------------------------------------------
// observation of the implementation

type bytesObs struct {
	Ran    bool
	Err    bool
	Panic  string
	Root   []byte
	Exec   [][]byte
	Rcpts  [][]byte
	Gets   [][]byte // nil entry = not found
	Reads  []rcptRead // one per found Get: the receipt read through receipt.NewReceipt
	Blocks []c12Item
}

// what receipt.NewReceipt (the reader behind ReceiptReader.Read) made of the root a Get returned
type rcptRead struct {
	Err   bool
	Panic string
	Ran   []byte
	Ok    bool
	Sig   []byte
	Iss   string // "" = no issuer, or one the DID parser refuses (not compared then)
	Fork  [][]byte
	Join  []byte
	Prf   [][]byte
}

type msgBlockReader struct{ m message.AgentMessage }

func (r msgBlockReader) Get(link ipld.Link) (ipld.Block, bool, error) {
	for b, err := range r.m.Blocks() {
		if err == nil && b.Link().String() == link.String() {
			return b, true, nil
		}
	}
	return nil, false, nil
}
func (r msgBlockReader) Iterator() iter.Seq2[ipld.Block, error] { return r.m.Blocks() }

func bytesReadReceipt(m message.AgentMessage, rl ipld.Link) (rr rcptRead) {
	if p := recovered(func() {
		rc, err := receipt.NewReceipt[ipld.Node, ipld.Node](rl, msgBlockReader{m}, rdm.TypeSystem().TypeByName("Receipt"))
		if err != nil || rc == nil {
			rr.Err = true
			return
		}
		if l := receipt.RanLink(rc); l != nil {
			rr.Ran = []byte(l.Binary())
		}
		result.MatchResultR0(rc.Out(), func(ipld.Node) { rr.Ok = true }, func(ipld.Node) { rr.Ok = false })
		rr.Sig = append([]byte{}, rc.Signature().Bytes()...)
		if p := rc.Issuer(); p != nil {
			rr.Iss = p.DID().String()
		}
		eff := rc.Fx()
		for _, e := range eff.Fork() {
			rr.Fork = append(rr.Fork, []byte(e.Link().Binary()))
		}
		if l := eff.Join().Link(); l != nil {
			rr.Join = []byte(l.Binary())
		}
		for _, p := range rc.Proofs() {
			rr.Prf = append(rr.Prf, []byte(p.Link().Binary()))
		}
	}); p != nil {
		rr.Panic = fmt.Sprint(p)
	}
	return rr
}

func (rr rcptRead) coq() string {
	if rr.Err || rr.Panic != "" {
		return "RRErr"
	}
	iss := "None"
	if rr.Iss != "" {
		iss = "(Some " + hx([]byte(rr.Iss)) + ")"
	}
	join := "None"
	if rr.Join != nil {
		join = "(Some " + hx(rr.Join) + ")"
	}
	return fmt.Sprintf("(RROk %s %v %s %s %s %s %s)", hx(rr.Ran), rr.Ok, hx(rr.Sig), iss, bytesListCoq(rr.Fork), join, bytesListCoq(rr.Prf))
}

func bytesReadMsg(o *bytesObs, m message.AgentMessage, lookups []ipld.Link) {
	o.Root = []byte(m.Root().Link().Binary())
	for _, l := range m.Invocations() {
		o.Exec = append(o.Exec, []byte(l.Binary()))
	}
	for _, l := range m.Receipts() {
		o.Rcpts = append(o.Rcpts, []byte(l.Binary()))
	}
	for _, l := range lookups {
		if rl, ok := m.Get(l); ok && rl != nil {
			o.Gets = append(o.Gets, []byte(rl.Binary()))
			rr := bytesReadReceipt(m, rl)
			if rr.Panic != "" && o.Panic == "" {
				o.Panic = "reading the receipt " + rl.String() + " named by the report: " + rr.Panic
			}
			o.Reads = append(o.Reads, rr)
		} else {
			o.Gets = append(o.Gets, nil)
		}
	}
	for b, err := range m.Blocks() {
		if err != nil {
			o.Blocks = append(o.Blocks, c12Item{})
			continue
		}
		o.Blocks = append(o.Blocks, c12Item{true, []byte(b.Link().Binary()), append([]byte{}, b.Bytes()...)})
	}
}

// client.Execute over a scripted channel answering with (status, body)
func bytesObserveResp(body []byte, status int, lookups []ipld.Link, invs []invocation.Invocation, service ucan.Principal) (o bytesObs) {
	o.Ran = true
	hdr := http.Header{}
	hdr.Set("Content-Type", car.ContentType)
	var ch transport.Channel = &scripted{status: status, body: body, hdr: hdr}
	if p := recovered(func() {
		conn, _ := client.NewConnection(service, ch)
		r, err := client.Execute(invs, conn)
		if err != nil || r == nil {
			o.Err = true
			return
		}
		m, ok := r.(message.AgentMessage)
		if !ok {
			o.Panic = "client.Execute returned something that is not an AgentMessage"
			return
		}
		bytesReadMsg(&o, m, lookups)
	}); p != nil {
		o.Panic = fmt.Sprint(p)
	}
	return o
}

func bytesObserveReq(body []byte, lookups []ipld.Link) (o bytesObs) {
	o.Ran = true
	if p := recovered(func() {
		m, err := request.Decode(thttp.NewHTTPRequest(bytes.NewReader(body), nil))
		if err != nil {
			o.Err = true
			return
		}
		bytesReadMsg(&o, m, lookups)
	}); p != nil {
		o.Panic = fmt.Sprint(p)
	}
	return o
}

func (o bytesObs) summary() string {
	switch {
	case !o.Ran:
		return "-"
	case o.Panic != "":
		return "PANIC " + o.Panic
	case o.Err:
		return "error"
	}
	gets := 0
	for _, g := range o.Gets {
		if g != nil {
			gets++
		}
	}
	return fmt.Sprintf("message root=%x invocations=%d receipts=%d gets-found=%d blocks=%d", o.Root, len(o.Exec), len(o.Rcpts), gets, len(o.Blocks))
}

// ---------------------------------------------------------------------------
// Gallina terms

func bytesListCoq(xs [][]byte) string {
	var s []string
	for _, x := range xs {
		s = append(s, hx(x))
	}
	return "[" + strings.Join(s, "; ") + "]"
}

func (o bytesObs) coq(names *c12Names) string {
	switch {
	case !o.Ran:
		return "BONone"
	case o.Panic != "":
		// never matches a model verdict of "error": a panic is reported separately
		return "BOErr"
	case o.Err:
		return "BOErr"
	}
	var its []string
	for _, it := range o.Blocks {
		ic := c12ItemCoq(it)
		if it.ok {
			ic = names.add("i", ic, "eitem", ic)
		}
		its = append(its, ic)
	}
	var rds []string
	for _, rr := range o.Reads {
		rds = append(rds, rr.coq())
	}
	return fmt.Sprintf("(BOMsg %s %s %s %s [%s] [%s])", hx(o.Root), bytesListCoq(o.Exec), bytesListCoq(o.Rcpts), bytesListCoq(o.Gets), strings.Join(rds, "; "), strings.Join(its, "; "))
}

// the shortest description of body relative to base
func bytesMutCoq(base, body []byte) string {
	if base == nil {
		return "(BRaw " + hx(body) + ")"
	}
	if bytes.Equal(base, body) {
		return "BNone"
	}
	if len(body) < len(base) && bytes.Equal(base[:len(body)], body) {
		return fmt.Sprintf("(BTrunc %d)", len(body))
	}
	if len(body) == len(base) {
		var fl []string
		lo, hi := -1, -1
		for i := range body {
			if body[i] != base[i] {
				fl = append(fl, fmt.Sprintf("(%d, %d)", i, body[i]^base[i]))
				if lo < 0 {
					lo = i
				}
				hi = i
			}
		}
		if len(fl) <= 6 {
			return "(BFlips [" + strings.Join(fl, "; ") + "])"
		}
		if hi-lo < 64 {
			return fmt.Sprintf("(BOver %d %s)", lo, hx(body[lo:hi+1]))
		}
	}
	if len(body) > len(base) && bytes.Equal(body[:len(base)], base) {
		suf := body[len(base):]
		if len(suf) <= len(base) && bytes.Equal(base[len(base)-len(suf):], suf) {
			return fmt.Sprintf("(BAppend %d)", len(base)-len(suf))
		}
	}
	return "(BRaw " + hx(body) + ")"
}

// ---------------------------------------------------------------------------
// a collection of cases and its case files

type bytesCase struct {
	Label   string
	Body    []byte
	Status  int
	Lookups []ipld.Link
	Resp    bytesObs
	Req     bytesObs
	Handle  int // 0 not exercised; 1 = server.Request answered 400 and ran nothing; 2 = anything else
	HStatus int
}

type bytesSet struct {
	prefix string
	bases  [][]byte
	cases  []*bytesCase
}

func (s *bytesSet) addBase(b []byte) int {
	s.bases = append(s.bases, b)
	return len(s.bases) - 1
}

func (s *bytesSet) add(c *bytesCase) { s.cases = append(s.cases, c) }

// hex literals -> constants; long ones as packed primitive integers
func bytesIntern(body string) (defs string, out string) {
	names := map[string]string{}
	var sb strings.Builder
	out = hxRe.ReplaceAllStringFunc(body, func(m string) string {
		h := hxRe.FindStringSubmatch(m)[1]
		if n, ok := names[h]; ok {
			return n
		}
		n := fmt.Sprintf("s_%d", len(names))
		names[h] = n
		raw, _ := hex.DecodeString(h)
		fmt.Fprintf(&sb, "Definition %s : bstr := Eval vm_compute in %s.\n", n, pk(raw))
		return n
	})
	return sb.String(), out
}

const bytesPrelude = "From Coq Require Import Uint63.\nFrom Ucanto Require Import Base Varint Cid Car Check_CBOR Check_C12 MessageBytes Check_Bytes.\nOpen Scope N_scope.\nOpen Scope string_scope.\n"

type bytesFileMeta struct {
	File  string `json:"file"`
	Cases []int  `json:"cases"` // global case indices, in file order
}

// write distributes the cases over `shards` files <prefix>_NN.v and returns their index
func (s *bytesSet) write(dir string, shards int) ([]bytesFileMeta, error) {
	if len(s.cases) == 0 {
		return nil, nil
	}
	if shards > len(s.cases) {
		shards = len(s.cases)
	}
	var metas []bytesFileMeta
	for k := 0; k < shards; k++ {
		names := &c12Names{byKey: map[string]string{}}
		var items []string
		var idx []int
		baseMap := map[int]int{}
		var baseTerms []string
		for i := k; i < len(s.cases); i += shards {
			c := s.cases[i]
			ref := bytesWalk(c.Body)
			var tbl []string
			for _, e := range ref.tbl {
				tbl = append(tbl, names.add("e", e.key(), "hentry", c12HECoq(e)))
			}
			orc := "OErr"
			if ref.orc != "err" {
				rc := c12RootsCoq(ref.orcRoots)
				orc = fmt.Sprintf("(OOk %s %d %s)", names.add("r", rc, "list bstr", rc), ref.orcVer, coqBool(ref.orc == "ok-canonical"))
			}
			// the shortest description of the body: as it is, or as a mutation of one of the bases
			bi, mut := 0, bytesMutCoq(nil, c.Body)
			for b, base := range s.bases {
				if m := bytesMutCoq(base, c.Body); len(m) < len(mut) {
					if _, ok := baseMap[b]; !ok {
						baseMap[b] = len(baseTerms)
						baseTerms = append(baseTerms, hx(base))
					}
					bi, mut = baseMap[b], m
				}
			}
			var lk [][]byte
			for _, l := range c.Lookups {
				lk = append(lk, []byte(l.Binary()))
			}
			lks := bytesListCoq(lk)
			lks = names.add("l", lks, "list bstr", lks)
			items = append(items, fmt.Sprintf("BC %d %s [%s] %s (%d)%%Z %s %s %s %d", bi, mut, strings.Join(tbl, "; "), orc,
				c.Status, lks, c.Resp.coq(names), c.Req.coq(names), c.Handle))
			idx = append(idx, i)
		}
		var body strings.Builder
		for _, d := range names.defs {
			body.WriteString(d + "\n")
		}
		fmt.Fprintf(&body, "Definition bases : list bstr := [%s].\n", strings.Join(baseTerms, "; "))
		fmt.Fprintf(&body, "Definition cases : list bcase := %s.\n", coqList(items))
		defs, txt := bytesIntern(body.String())
		var sb strings.Builder
		sb.WriteString(bytesPrelude)
		sb.WriteString(defs)
		sb.WriteString(txt)
		sb.WriteString("Definition R := Eval vm_compute in run_all bases cases.\n")
		sb.WriteString("Definition M := Eval vm_compute in bad_of R 0.\nPrint M.\n")
		sb.WriteString("Definition S := Eval vm_compute in hist_of R.\nPrint S.\n")
		sb.WriteString("Definition V := Eval vm_compute in map snd R.\nPrint V.\n")
		sb.WriteString("Definition RH := Eval vm_compute in rhist_of bases cases.\nPrint RH.\n")
		name := fmt.Sprintf("%s_%02d.v", s.prefix, k)
		if err := writeFile(dir, name, sb.String()); err != nil {
			return nil, err
		}
		metas = append(metas, bytesFileMeta{File: name, Cases: idx})
	}
	return metas, nil
}

type bytesCaseJSON struct {
	Id     int    `json:"id"`
	Label  string `json:"label"`
	Status int    `json:"status"`
	Body   string `json:"body_hex"`
	Look   string `json:"lookups_hex"` // the links asked for with Get, comma separated
	Resp   string `json:"client_execute"`
	Req    string `json:"request_decode"`
	Handle string `json:"server_request,omitempty"`
}

// "reply 12 raw-7" -> raw; "reply 900 root:union-empty" -> root; "reply 950 reencoded:cut#3" -> reencoded:cut;
// other replies of the C15 generator -> structured
func bytesKind(label string) string {
	f := strings.SplitN(label, " ", 3)
	if len(f) == 3 && (f[0] == "reply" || f[0] == "body" || f[0] == "item") {
		label = f[2]
	}
	switch {
	case strings.HasPrefix(label, "raw-"):
		return "raw"
	case strings.HasPrefix(label, "status-"):
		return "status"
	case strings.HasPrefix(label, "random-root"):
		return "random-root"
	case strings.HasPrefix(label, "reencoded:"):
		if k := strings.Index(label, "#"); k > 0 {
			return label[:k]
		}
	case strings.HasPrefix(label, "rawmut:"):
		return "rawmut"
	}
	if k := strings.Index(label, ":"); k > 0 && !strings.Contains(label[:k], " ") {
		return label[:k]
	}
	return "structured"
}

// finish writes the case files, <prefix>.json (index, per-case replay data, implementation-side
// distribution) and returns the list of panics seen
func (s *bytesSet) finish(dir string, shards int) error {
	metas, err := s.write(dir, shards)
	if err != nil {
		return err
	}
	var cj []bytesCaseJSON
	implClasses := map[string]int{}
	byKind := map[string]map[string]int{}
	panics := []map[string]any{}
	for i, c := range s.cases {
		var lk []string
		for _, l := range c.Lookups {
			lk = append(lk, hex.EncodeToString([]byte(l.Binary())))
		}
		j := bytesCaseJSON{Id: i, Label: c.Label, Status: c.Status, Body: hex.EncodeToString(c.Body), Look: strings.Join(lk, ","), Resp: c.Resp.summary(), Req: c.Req.summary()}
		if c.Handle != 0 {
			j.Handle = fmt.Sprintf("status %d", c.HStatus)
		}
		cj = append(cj, j)
		cls := "-"
		for _, o := range []bytesObs{c.Resp, c.Req} {
			if !o.Ran {
				continue
			}
			switch {
			case o.Panic != "":
				cls = "panic"
				panics = append(panics, map[string]any{"case": i, "label": c.Label, "panic": o.Panic, "body_hex": hex.EncodeToString(c.Body)})
			case o.Err:
				cls = "error"
			default:
				cls = "message"
			}
			break
		}
		implClasses[cls]++
		kind := bytesKind(c.Label)
		if byKind[kind] == nil {
			byKind[kind] = map[string]int{}
		}
		byKind[kind][cls]++
	}
	return writeJSON(dir, s.prefix+".json", map[string]any{"files": metas, "cases": cj, "impl_classes": implClasses, "by_kind": byKind, "panics": panics})
}

// ---------------------------------------------------------------------------
// dag-cbor by hand (so that ill-formed and non-canonical shapes can be written)

func cbHead(major byte, n uint64) []byte {
	m := major << 5
	switch {
	case n < 24:
		return []byte{m | byte(n)}
	case n < 1<<8:
		return []byte{m | 24, byte(n)}
	case n < 1<<16:
		return []byte{m | 25, byte(n >> 8), byte(n)}
	case n < 1<<32:
		return []byte{m | 26, byte(n >> 24), byte(n >> 16), byte(n >> 8), byte(n)}
	}
	return []byte{m | 27, byte(n >> 56), byte(n >> 48), byte(n >> 40), byte(n >> 32), byte(n >> 24), byte(n >> 16), byte(n >> 8), byte(n)}
}
func cbText(s string) []byte   { return cat(cbHead(3, uint64(len(s))), []byte(s)) }
func cbBytes(b []byte) []byte  { return cat(cbHead(2, uint64(len(b))), b) }
func cbInt(n uint64) []byte    { return cbHead(0, n) }
func cbLinkB(c []byte) []byte  { return cat([]byte{0xd8, 42}, cbHead(2, uint64(len(c)+1)), []byte{0}, c) }
func cbLink(l ipld.Link) []byte { return cbLinkB([]byte(l.Binary())) }
func cbList(items ...[]byte) []byte {
	return cat(append([][]byte{cbHead(4, uint64(len(items)))}, items...)...)
}
func cbListIndef(items ...[]byte) []byte {
	return cat(append(append([][]byte{{0x9f}}, items...), []byte{0xff})...)
}

// cbMap(k1, v1, k2, v2, ...): entries in the order given
func cbMap(kv ...[]byte) []byte {
	return cat(append([][]byte{cbHead(5, uint64(len(kv)/2))}, kv...)...)
}
func cbMapIndef(kv ...[]byte) []byte {
	return cat(append(append([][]byte{{0xbf}}, kv...), []byte{0xff})...)
}

var (
	cbNull  = []byte{0xf6}
	cbUndef = []byte{0xf7}
	cbTrue  = []byte{0xf5}
	cbK7    = cbText("ucanto/message@7.0.0")
	cbEx    = cbText("execute")
	cbRp    = cbText("report")
)

func bytesMkBlock(data []byte, kind string) ipld.Block {
	var d mh.Multihash
	codec := uint64(0x71)
	switch kind {
	case "", "dagcbor-sha256":
		d, _ = mh.Sum(data, mh.SHA2_256, -1)
	case "raw-sha256":
		d, _ = mh.Sum(data, mh.SHA2_256, -1)
		codec = 0x55
	case "dagjson-sha256":
		d, _ = mh.Sum(data, mh.SHA2_256, -1)
		codec = 0x0129
	case "identity":
		d, _ = mh.Sum(data, mh.IDENTITY, -1)
	case "sha256-20":
		d, _ = mh.Sum(data, mh.SHA2_256, 20)
	case "sha512":
		d, _ = mh.Sum(data, mh.SHA2_512, -1)
	case "v0":
		d, _ = mh.Sum(data, mh.SHA2_256, -1)
		return block.NewBlock(cidlink.Link{Cid: cid.NewCidV0(d)}, data)
	}
	return block.NewBlock(cidlink.Link{Cid: cid.NewCidV1(codec, d)}, data)
}

type bytesNamed struct {
	name string
	data []byte
}

// root blocks: the decision logic above the CAR layer
func bytesRootVariants(look []ipld.Link, rc []ipld.Link) []bytesNamed {
	k := func(i int) []byte { return cbText(look[i].String()) }
	L := func(i int) []byte { return cbLink(look[i]) }
	R := func(i int) []byte { return cbLink(rc[i]) }
	v0 := bytesMkBlock([]byte("v0"), "v0").Link()
	idl := bytesMkBlock([]byte("id"), "identity").Link()
	data := func(fields ...[]byte) []byte { return cbMap(cbK7, cbMap(fields...)) }
	var many [][]byte
	for i := 0; i < 60; i++ {
		many = append(many, L(i%3))
	}
	vs := []bytesNamed{
		{"proper-canonical", data(cbRp, cbMap(k(0), R(0)), cbEx, cbList(L(0)))},
		{"proper-execute-first", data(cbEx, cbList(L(0)), cbRp, cbMap(k(0), R(0)))},
		{"proper-two-receipts", data(cbRp, cbMap(k(0), R(0), k(1), R(1)))},
		{"report-keys-unsorted", data(cbRp, cbMap(k(2), R(1), k(1), R(1), k(0), R(0)))},
		{"data-empty", data()},
		{"union-empty", cbMap()},
		{"union-other-key", cbMap(cbText("ucanto/message@8.0.0"), cbMap())},
		{"union-key-prefix", cbMap(cbText("ucanto/message@7.0."), cbMap())},
		{"union-key-longer", cbMap(cbText("ucanto/message@7.0.0 "), cbMap())},
		{"union-extra-key-after", cbMap(cbK7, cbMap(), cbText("x"), cbMap())},
		{"union-extra-key-before", cbMap(cbText("x"), cbMap(), cbK7, cbMap())},
		{"union-key-twice", cbMap(cbK7, cbMap(cbEx, cbList(L(0))), cbK7, cbMap(cbEx, cbList(L(1))))},
		{"union-key-twice-second-empty", cbMap(cbK7, cbMap(cbEx, cbList(L(0))), cbK7, cbMap())},
		{"union-key-twice-first-bad", cbMap(cbK7, cbMap(cbEx, cbInt(1)), cbK7, cbMap())},
		{"union-value-null", cbMap(cbK7, cbNull)},
		{"union-value-list", cbMap(cbK7, cbList())},
		{"union-value-int", cbMap(cbK7, cbInt(7))},
		{"union-value-link", cbMap(cbK7, L(0))},
		{"union-key-not-text", cbMap(cbInt(1), cbMap())},
		{"union-key-bytes", cbMap(cbBytes([]byte("ucanto/message@7.0.0")), cbMap())},
		{"data-unknown-field", data(cbText("x"), cbInt(1))},
		{"data-unknown-field-after-valid", data(cbEx, cbList(L(0)), cbText("x"), cbInt(1))},
		{"data-field-case", data(cbText("Execute"), cbList(L(0)))},
		{"execute-twice", data(cbEx, cbList(L(0)), cbEx, cbList(L(1), L(2)))},
		{"execute-twice-second-empty", data(cbEx, cbList(L(0)), cbEx, cbList())},
		{"execute-twice-first-bad", data(cbEx, cbInt(1), cbEx, cbList())},
		{"report-twice", data(cbRp, cbMap(k(0), R(0)), cbRp, cbMap(k(1), R(1)))},
		{"report-twice-second-empty", data(cbRp, cbMap(k(0), R(0)), cbRp, cbMap())},
		{"execute-empty", data(cbEx, cbList())},
		{"execute-indefinite", data(cbEx, cbListIndef(L(0), L(1)))},
		{"execute-repeated-link", data(cbEx, cbList(L(0), L(0), L(1), L(0)))},
		{"execute-many", data(cbEx, cbList(many...))},
		{"execute-cidv0-link", data(cbEx, cbList(cbLink(v0)))},
		{"execute-identity-link", data(cbEx, cbList(cbLink(idl)))},
		{"execute-int", data(cbEx, cbInt(1))},
		{"execute-map", data(cbEx, cbMap())},
		{"execute-null", data(cbEx, cbNull)},
		{"execute-undefined", data(cbEx, cbUndef)},
		{"execute-bytes", data(cbEx, cbBytes([]byte{1, 2}))},
		{"execute-string", data(cbEx, cbText("x"))},
		{"execute-bool", data(cbEx, cbTrue)},
		{"execute-link", data(cbEx, L(0))},
		{"execute-list-of-int", data(cbEx, cbList(cbInt(1)))},
		{"execute-list-of-null", data(cbEx, cbList(cbNull))},
		{"execute-list-of-bytes", data(cbEx, cbList(cbBytes([]byte{0})))},
		{"execute-list-of-string", data(cbEx, cbList(cbText(look[0].String())))},
		{"execute-list-of-map", data(cbEx, cbList(cbMap()))},
		{"execute-list-of-list", data(cbEx, cbList(cbList(L(0))))},
		{"execute-link-then-int", data(cbEx, cbList(L(0), cbInt(1)))},
		{"execute-link-bad-multibase", data(cbEx, cbList(cat([]byte{0xd8, 42}, cbBytes(cat([]byte{1}, []byte(look[0].Binary()))))))},
		{"execute-link-empty-bytes", data(cbEx, cbList([]byte{0xd8, 42, 0x40}))},
		{"execute-link-not-a-cid", data(cbEx, cbList(cat([]byte{0xd8, 42}, cbBytes([]byte{0, 1, 2, 3}))))},
		{"execute-link-tag-43", data(cbEx, cbList(cat([]byte{0xd8, 43}, cbBytes(cat([]byte{0}, []byte(look[0].Binary()))))))},
		{"execute-link-double-tag", data(cbEx, cbList(cat([]byte{0xc1}, L(0))))},
		{"execute-tagged-list", data(cbEx, cat([]byte{0xc1}, cbList(L(0))))},
		{"report-empty", data(cbRp, cbMap())},
		{"report-indefinite", data(cbRp, cbMapIndef(k(0), R(0)))},
		{"report-list", data(cbRp, cbList())},
		{"report-null", data(cbRp, cbNull)},
		{"report-int", data(cbRp, cbInt(1))},
		{"report-link", data(cbRp, R(0))},
		{"report-string", data(cbRp, cbText("x"))},
		{"report-value-int", data(cbRp, cbMap(k(0), cbInt(1)))},
		{"report-value-null", data(cbRp, cbMap(k(0), cbNull))},
		{"report-value-string", data(cbRp, cbMap(k(0), cbText(rc[0].String())))},
		{"report-value-bytes", data(cbRp, cbMap(k(0), cbBytes([]byte(rc[0].Binary()))))},
		{"report-value-list", data(cbRp, cbMap(k(0), cbList(R(0))))},
		{"report-value-map", data(cbRp, cbMap(k(0), cbMap()))},
		{"report-second-value-bad", data(cbRp, cbMap(k(0), R(0), k(1), cbInt(1)))},
		{"report-repeated-key", data(cbRp, cbMap(k(0), R(0), k(1), R(1), k(0), R(1)))},
		{"report-repeated-key-thrice", data(cbRp, cbMap(k(0), R(0), k(0), R(1), k(0), R(0)))},
		{"report-key-not-utf8", data(cbRp, cbMap(cat([]byte{0x62, 0xff, 0xfe}), R(0)))},
		{"report-key-empty", data(cbRp, cbMap(cbText(""), R(0)))},
		{"report-key-upper", data(cbRp, cbMap(cbText(strings.ToUpper(look[0].String())), R(0)))},
		{"report-key-foreign", data(cbRp, cbMap(cbText("not-a-cid"), R(0), cbText(rc[0].String()), R(1)))},
		{"report-key-v0-string", data(cbRp, cbMap(cbText(v0.String()), R(0)))},
		{"report-key-int", data(cbRp, cbMap(cbInt(1), R(0)))},
		{"report-key-bytes", data(cbRp, cbMap(cbBytes([]byte(look[0].String())), R(0)))},
		{"report-key-tagged", data(cbRp, cbMap(cat([]byte{0xc1}, k(0)), R(0)))},
		{"report-value-v0", data(cbRp, cbMap(k(0), cbLink(v0)))},
		{"top-list", cbList()},
		{"top-list-of-message", cbList(data())},
		{"top-int", cbInt(1)},
		{"top-negative", []byte{0x20}},
		{"top-null", cbNull},
		{"top-undefined", cbUndef},
		{"top-string", cbText("ucanto/message@7.0.0")},
		{"top-bytes", cbBytes([]byte{1})},
		{"top-bool", cbTrue},
		{"top-link", L(0)},
		{"top-float", []byte{0xf9, 0x3c, 0x00}},
		{"top-simple", []byte{0xf0}},
		{"top-break", []byte{0xff}},
		{"top-tagged-map", cat([]byte{0xc1}, data())},
		{"top-tag42-map", cat([]byte{0xd8, 42}, data())},
		{"top-double-tagged-map", cat([]byte{0xc1, 0xc1}, data())},
		{"top-indefinite-map", cbMapIndef(cbK7, cbMap())},
		{"top-indefinite-unclosed", cat([]byte{0xbf}, cbK7, cbMap())},
		{"top-map-length-2-of-1", cat(cbHead(5, 2), cbK7, cbMap())},
		{"top-map-nonminimal-length", cat([]byte{0xb8, 1}, cbK7, cbMap())},
		{"top-map-huge-length", cat([]byte{0xbb, 0xff, 0xff, 0xff, 0xff, 0xff, 0xff, 0xff, 0xff}, cbK7, cbMap())},
		{"key-nonminimal-length", cat(cbHead(5, 1), []byte{0x78, 20}, []byte("ucanto/message@7.0.0"), cbMap())},
		{"key-indefinite-string", cat(cbHead(5, 1), []byte{0x7f}, cbText("ucanto/"), cbText("message@7.0.0"), []byte{0xff}, cbMap())},
		{"key-tagged", cat(cbHead(5, 1), []byte{0xc1}, cbK7, cbMap())},
		{"trailing-byte", cat(data(), []byte{0})},
		{"trailing-message", cat(data(), data())},
		{"truncated-cbor", data(cbEx, cbList(L(0)))[:30]},
		{"empty-block", []byte{}},
		{"float-in-execute", data(cbEx, cbList([]byte{0xf9, 0, 0}))},
		{"float-as-report-value", data(cbRp, cbMap(k(0), []byte{0xfb, 0, 0, 0, 0, 0, 0, 0, 0}))},
		{"execute-nested-deep", data(cbEx, bytes.Repeat([]byte{0x81}, 40))},
	}
	return vs
}

// random values near the schema: every decision of the matcher in random combination
func bytesRandomRoot(r *rand.Rand, look []ipld.Link, rc []ipld.Link) []byte {
	link := func() []byte {
		if r.Intn(2) == 0 {
			return cbLink(look[r.Intn(len(look))])
		}
		return cbLink(rc[r.Intn(len(rc))])
	}
	scalar := func() []byte {
		switch r.Intn(8) {
		case 0:
			return cbNull
		case 1:
			return cbInt(uint64(r.Intn(1000)))
		case 2:
			return cbText("x")
		case 3:
			return cbBytes([]byte{1})
		case 4:
			return cbTrue
		case 5:
			return cbMap()
		case 6:
			return cbList()
		}
		return []byte{0xf9, 0, 0}
	}
	maybeTag := func(b []byte) []byte {
		if r.Intn(25) == 0 {
			return cat([]byte{0xc0 + byte(r.Intn(20))}, b)
		}
		return b
	}
	list := func(items [][]byte) []byte {
		if r.Intn(6) == 0 {
			return cbListIndef(items...)
		}
		return cbList(items...)
	}
	mp := func(kv [][]byte) []byte {
		if r.Intn(6) == 0 {
			return cbMapIndef(kv...)
		}
		return cbMap(kv...)
	}
	execute := func() []byte {
		if r.Intn(8) == 0 {
			return scalar()
		}
		var items [][]byte
		for n := r.Intn(4); n > 0; n-- {
			if r.Intn(10) == 0 {
				items = append(items, scalar())
			} else {
				items = append(items, link())
			}
		}
		return maybeTag(list(items))
	}
	report := func() []byte {
		if r.Intn(8) == 0 {
			return scalar()
		}
		var kv [][]byte
		for n := r.Intn(4); n > 0; n-- {
			switch r.Intn(8) {
			case 0:
				kv = append(kv, cbText("k"+fmt.Sprint(r.Intn(3))))
			case 1:
				kv = append(kv, scalar())
			default:
				kv = append(kv, maybeTag(cbText(look[r.Intn(len(look))].String())))
			}
			if r.Intn(10) == 0 {
				kv = append(kv, scalar())
			} else {
				kv = append(kv, link())
			}
		}
		return maybeTag(mp(kv))
	}
	dataV := func() []byte {
		if r.Intn(10) == 0 {
			return scalar()
		}
		var kv [][]byte
		for n := []int{0, 1, 1, 2, 2, 2, 3}[r.Intn(7)]; n > 0; n-- {
			switch r.Intn(9) {
			case 0:
				kv = append(kv, cbText("x"), scalar())
			case 1, 2, 3, 4:
				kv = append(kv, cbEx, execute())
			default:
				kv = append(kv, cbRp, report())
			}
		}
		return maybeTag(mp(kv))
	}
	if r.Intn(15) == 0 {
		return scalar()
	}
	var kv [][]byte
	for n := []int{0, 1, 1, 1, 1, 1, 2, 2}[r.Intn(8)]; n > 0; n-- {
		if r.Intn(8) == 0 {
			kv = append(kv, cbText([]string{"x", "ucanto/message@7.0.1", ""}[r.Intn(3)]), dataV())
		} else {
			kv = append(kv, maybeTag(cbK7), dataV())
		}
	}
	out := maybeTag(mp(kv))
	if r.Intn(30) == 0 {
		out = append(out, 0)
	}
	return out
}

func bytesCar(roots []ipld.Link, blocks []ipld.Block) []byte {
	return carBytes(roots, blocks)
}

// ---------------------------------------------------------------------------
// the reply / request bodies that stay valid CARs but change the message

type bytesBody struct {
	Label string
	Body  []byte
}

func bytesBodies(seed int64, tier string, invs []invocation.Invocation, look []ipld.Link, rcptBlocks []ipld.Block, other []ipld.Block) []bytesBody {
	r := rand.New(rand.NewSource(seed*104729 + 15))
	var rc []ipld.Link
	for _, b := range rcptBlocks {
		rc = append(rc, b.Link())
	}
	var out []bytesBody
	add := func(label string, body []byte) { out = append(out, bytesBody{label, body}) }
	// 1. every root variant under the proper CID, alone and with the other blocks
	variants := bytesRootVariants(look, rc)
	for i, v := range variants {
		rb := bytesMkBlock(v.data, "")
		blocks := []ipld.Block{rb}
		if i%3 == 0 {
			blocks = append(append([]ipld.Block{}, other...), rb)
		}
		add("root:"+v.name, bytesCar([]ipld.Link{rb.Link()}, blocks))
	}
	// 2. the same data under other CIDs (block.Decode's integrity check)
	for _, name := range []string{"proper-canonical", "data-empty", "union-empty", "top-int"} {
		for _, v := range variants {
			if v.name != name {
				continue
			}
			for _, kind := range []string{"raw-sha256", "dagjson-sha256", "identity", "sha256-20", "sha512", "v0"} {
				rb := bytesMkBlock(v.data, kind)
				add("cid:"+kind+"/"+name, bytesCar([]ipld.Link{rb.Link()}, append([]ipld.Block{rb}, other...)))
			}
		}
	}
	// 3. CAR-level arrangements around a proper message
	msgA := bytesMkBlock(variants[0].data, "")
	msgB := bytesMkBlock(variants[2].data, "")
	emptyRaw := bytesMkBlock([]byte{}, "raw-sha256")
	o0 := other[0]
	L := func(bs ...ipld.Block) []ipld.Link {
		var ls []ipld.Link
		for _, b := range bs {
			ls = append(ls, b.Link())
		}
		return ls
	}
	B := func(bs ...ipld.Block) []ipld.Block { return bs }
	withOther := func(front bool, rb ...ipld.Block) []ipld.Block {
		if front {
			return append(append([]ipld.Block{}, rb...), other...)
		}
		return append(append([]ipld.Block{}, other...), rb...)
	}
	add("car:root-first", bytesCar(L(msgA), withOther(true, msgA)))
	add("car:root-last", bytesCar(L(msgA), withOther(false, msgA)))
	mid := append(append(append([]ipld.Block{}, other[:len(other)/2]...), msgA), other[len(other)/2:]...)
	add("car:root-middle", bytesCar(L(msgA), mid))
	add("car:root-only", bytesCar(L(msgA), B(msgA)))
	add("car:root-block-twice", bytesCar(L(msgA), B(msgA, o0, msgA)))
	add("car:every-block-twice", bytesCar(L(msgA), append(withOther(true, msgA), withOther(true, msgA)...)))
	add("car:blocks-reversed", bytesCar(L(msgA), reverseBlocks(withOther(true, msgA))))
	add("car:root-missing", bytesCar(L(msgA), other))
	add("car:no-blocks", bytesCar(L(msgA), nil))
	add("car:no-roots", bytesCar(nil, withOther(true, msgA)))
	add("car:no-roots-no-blocks", bytesCar(nil, nil))
	add("car:two-roots-message-first", bytesCar(L(msgA, o0), withOther(true, msgA)))
	add("car:two-roots-message-second", bytesCar(L(o0, msgA), withOther(true, msgA)))
	add("car:two-roots-both-messages-AB", bytesCar(L(msgA, msgB), B(msgA, msgB)))
	add("car:two-roots-both-messages-BA", bytesCar(L(msgB, msgA), B(msgA, msgB)))
	add("car:two-roots-second-missing", bytesCar(L(msgA, msgB), B(msgA)))
	add("car:two-roots-first-missing", bytesCar(L(msgB, msgA), B(msgA)))
	add("car:root-listed-twice", bytesCar(L(msgA, msgA), B(msgA)))
	add("car:five-roots", bytesCar(L(msgA, o0, msgB, o0, msgA), withOther(true, msgA, msgB)))
	add("car:second-message-block-unlisted", bytesCar(L(msgA), B(msgB, msgA)))
	add("car:with-v0-block", bytesCar(L(msgA), B(msgA, bytesMkBlock([]byte("pb"), "v0"))))
	add("car:with-identity-block", bytesCar(L(msgA), B(bytesMkBlock([]byte("hello"), "identity"), msgA)))
	add("car:with-sha512-block", bytesCar(L(msgA), B(msgA, bytesMkBlock([]byte("x"), "sha512"))))
	add("car:with-empty-payload-block", bytesCar(L(msgA), B(emptyRaw, msgA)))
	add("car:root-is-invocation", bytesCar(L(o0), other))
	add("car:root-is-receipt", bytesCar(L(rcptBlocks[0]), append(B(rcptBlocks[0]), other...)))
	add("car:root-is-empty-payload", bytesCar(L(emptyRaw), B(emptyRaw, msgA)))
	good := bytesCar(L(msgA), withOther(true, msgA))
	hdrLen := len(bytesCar(L(msgA), nil))
	rootsOf := func(bs ...ipld.Block) [][]byte {
		var rs [][]byte
		for _, b := range bs {
			rs = append(rs, []byte(b.Link().Binary()))
		}
		return rs
	}
	body := good[hdrLen:]
	for _, v := range []uint64{0, 2, 1 << 40} {
		add(fmt.Sprintf("car:header-version-%d", v), cat(c12Header(rootsOf(msgA), v, false), body))
	}
	add("car:header-nil-roots", cat(c12Header(nil, 1, true), body))
	if pl := hdrPayload(good[:hdrLen]); len(pl) > 2 {
		if idx := bytes.Index(pl, []byte("gversion")); idx > 0 {
			alt := cat([]byte{0xa2}, pl[idx:], pl[1:idx])
			add("car:header-keys-swapped", cat(uvar(uint64(len(alt))), alt, body))
			alt2 := cat(pl[:len(pl)-1], []byte{0x18, pl[len(pl)-1]})
			add("car:header-version-nonminimal", cat(uvar(uint64(len(alt2))), alt2, body))
			alt3 := cat([]byte{0xa3}, pl[1:], cbText("x"), cbInt(1))
			add("car:header-extra-field", cat(uvar(uint64(len(alt3))), alt3, body))
		}
	}
	add("car:zero-section-after-header", cat(good[:hdrLen], []byte{0}, body))
	add("car:zero-section-at-end", cat(good, []byte{0}))
	add("car:trailing-garbage", cat(good, []byte{0x05, 1, 2}))
	add("car:trailing-length-only", cat(good, []byte{0x25}))
	add("car:section-length-too-big", cat(good[:hdrLen], uvar(33554433), body))
	add("car:empty", []byte{})
	add("car:header-only-bytes", good[:hdrLen])
	// 4. the proper root data perturbed, then re-addressed (the CAR stays valid, the message changes)
	nre, nrand, nraw := 300, 150, 12
	if tier == "thorough" {
		nre, nrand, nraw = 6000, 4000, 60
	}
	bases := [][]byte{variants[0].data, variants[1].data, variants[2].data, variants[3].data}
	for i := 0; i < nre; i++ {
		d := append([]byte{}, bases[r.Intn(len(bases))]...)
		kind := ""
		switch r.Intn(6) {
		case 0:
			d = d[:r.Intn(len(d)+1)]
			kind = "cut"
		case 1:
			for n := 1 + r.Intn(2); n > 0; n-- {
				d[r.Intn(len(d))] ^= byte(1 << uint(r.Intn(8)))
			}
			kind = "bitflip"
		case 2:
			// structural bytes of the first 40 (heads, keys)
			p := r.Intn(40)
			if p < len(d) {
				d[p] = byte(r.Intn(256))
			}
			kind = "head-byte"
		case 3:
			p := r.Intn(len(d) + 1)
			ins := []byte{byte(r.Intn(256))}
			d = cat(d[:p], ins, d[p:])
			kind = "insert"
		case 4:
			p := r.Intn(len(d))
			d = cat(d[:p], d[p+1:])
			kind = "delete"
		case 5:
			p := r.Intn(len(d))
			q := p + r.Intn(len(d)-p)
			d = cat(d[:q], d[p:q], d[q:])
			kind = "duplicate-chunk"
		}
		rb := bytesMkBlock(d, "")
		blocks := []ipld.Block{rb}
		if i%4 == 0 {
			blocks = withOther(i%8 == 0, rb)
		}
		add(fmt.Sprintf("reencoded:%s#%d", kind, i), bytesCar(L(rb), blocks))
	}
	for i := 0; i < nrand; i++ {
		rb := bytesMkBlock(bytesRandomRoot(r, look, rc), "")
		add(fmt.Sprintf("random-root#%d", i), bytesCar(L(rb), B(rb)))
	}
	// 5. raw mutations of the arrangements above (most break a hash; some hit a length or the header)
	n := len(out)
	for i := 0; i < n && i < 60; i += 1 {
		src := out[(i*7)%n]
		if len(src.Body) == 0 {
			continue
		}
		for j := 0; j < nraw/6+1; j++ {
			mb := append([]byte{}, src.Body...)
			switch r.Intn(4) {
			case 0:
				mb = mb[:r.Intn(len(mb)+1)]
			case 1:
				mb[r.Intn(len(mb))] ^= byte(1 << uint(r.Intn(8)))
			case 2:
				p := r.Intn(len(mb))
				if p > 70 {
					p = r.Intn(70)
				}
				if p < len(mb) {
					mb[p] ^= byte(1 << uint(r.Intn(8)))
				}
			case 3:
				mb = append(mb, mb[r.Intn(len(mb)):]...)
			}
			add("rawmut:"+src.Label, mb)
		}
	}
	return out
}

func reverseBlocks(bs []ipld.Block) []ipld.Block {
	out := make([]ipld.Block, len(bs))
	for i, b := range bs {
		out[len(bs)-1-i] = b
	}
	return out
}


// ---------------------------------------------------------------------------
// C15: every scripted reply of the C15 generator, and the bodies above, through the byte-level model

type bytesC15 struct {
	set     *bytesSet
	tier    string
	invs    []invocation.Invocation
	service ucan.Principal
	nraw    int
}

// newBytesC15 appends the byte-level replies to the reply list of the C15 generator (as raw bodies)
func newBytesC15(o genOpts, replies *[]*reply, invs []invocation.Invocation, service ucan.Principal) *bytesC15 {
	b := &bytesC15{set: &bytesSet{prefix: "bytes_C15"}, tier: o.tier, invs: invs, service: service}
	var look []ipld.Link
	for _, inv := range invs {
		look = append(look, inv.Link())
	}
	look = append(look, fakeLink(1))
	var other []ipld.Block
	for blk, err := range invs[0].Blocks() {
		if err == nil {
			other = append(other, blk)
		}
	}
	// stand-ins for receipt root blocks (the decoding decision never looks inside them)
	rc := []ipld.Block{
		bytesMkBlock(cbMap(cbText("ocm"), cbMap(cbText("ran"), cbLink(look[0])), cbText("sig"), cbBytes([]byte{1, 2, 3})), ""),
		bytesMkBlock(cbMap(cbText("ocm"), cbMap(cbText("ran"), cbLink(look[1])), cbText("sig"), cbBytes([]byte{4, 5, 6})), ""),
	}
	for _, bb := range bytesBodies(o.seed, o.tier, invs, look, rc, append(other, rc[0])) {
		*replies = append(*replies, &reply{Label: "bytes " + bb.Label, Raw: bb.Body, Status: 200, Lookups: look})
	}
	// hand-written receipt root blocks behind a proper report: what the receipt reader makes of them
	for _, bb := range bytesReceiptBodies(look, service.DID().String(), other) {
		*replies = append(*replies, &reply{Label: "bytes " + bb.Label, Raw: bb.Body, Status: 200, Lookups: look})
	}
	return b
}

func (b *bytesC15) observe(i int, rp *reply) {
	if rp == nil || rp.Framing != "" || rp.CT != "" {
		return
	}
	body := rp.Raw
	if body == nil {
		body = carBytes(rp.Roots, rp.Blocks)
	}
	if strings.HasPrefix(rp.Label, "status-") && len(b.set.bases) == 0 {
		b.set.addBase(body) // the valid body the raw stream mutates
	}
	if strings.HasPrefix(rp.Label, "raw-") {
		b.nraw++
		if b.tier != "thorough" && b.nraw > 400 {
			return
		}
	}
	c := &bytesCase{Label: fmt.Sprintf("reply %d %s", i, rp.Label), Body: body, Status: rp.Status, Lookups: rp.Lookups}
	c.Label = strings.Replace(c.Label, "bytes ", "", 1)
	c.Resp = bytesObserveResp(body, rp.Status, rp.Lookups, b.invs, b.service)
	if rp.Status == 200 {
		c.Req = bytesObserveReq(body, rp.Lookups)
	}
	b.set.add(c)
}

func (b *bytesC15) finish(dir string) error {
	// about 250 cases per file (16 files at least): Coq's time per file grows faster than linearly with its size
	shards := 16
	if n := len(b.set.cases) / 250; n > shards {
		shards = n
	}
	return b.set.finish(dir, shards)
}

// harness bytes-one <hex body> <outdir> [status [seed]]: one body through client.Execute and request.Decode, and the
// case file for the model (replay of a bytes-model violation)
func init() {
	extraCmds["bytes-one"] = func(args []string) int {
		if len(args) < 2 {
			fmt.Fprintln(os.Stderr, "usage: harness bytes-one <hex body> <outdir> [status [seed [lookup,lookup,...]]]")
			return 2
		}
		body, err := hex.DecodeString(args[0])
		if err != nil {
			fmt.Fprintln(os.Stderr, err)
			return 2
		}
		status := 200
		if len(args) > 2 {
			fmt.Sscanf(args[2], "%d", &status)
		}
		var seed int64 = 1
		if len(args) > 3 {
			fmt.Sscanf(args[3], "%d", &seed)
		}
		_, invs, service := c15Replies(seed, "none") // the lookup links of that seed
		var look []ipld.Link
		for _, inv := range invs {
			look = append(look, inv.Link())
		}
		look = append(look, fakeLink(1))
		if len(args) > 4 && args[4] != "" {
			// the lookup links of the original case (token links carry wall-clock fields and are not reproducible)
			look = nil
			for _, h := range strings.Split(args[4], ",") {
				b, err := hex.DecodeString(h)
				if err != nil {
					fmt.Fprintln(os.Stderr, err)
					return 2
				}
				c, err := cid.Cast(b)
				if err != nil {
					fmt.Fprintln(os.Stderr, err)
					return 2
				}
				look = append(look, cidlink.Link{Cid: c})
			}
		}
		c := &bytesCase{Label: "replay", Body: body, Status: status, Lookups: look}
		c.Resp = bytesObserveResp(body, status, look, invs, service)
		c.Req = bytesObserveReq(body, look)
		set := &bytesSet{prefix: "replay_case"}
		set.add(c)
		if err := os.MkdirAll(args[1], 0o755); err != nil {
			fmt.Fprintln(os.Stderr, err)
			return 2
		}
		if err := set.finish(args[1], 1); err != nil {
			fmt.Fprintln(os.Stderr, err)
			return 2
		}
		fmt.Printf("{\"client_execute\": %q, \"request_decode\": %q}\n", c.Resp.summary(), c.Req.summary())
		return 0
	}
}

// bytesWatchdog: a reply on which client.Execute (or an accessor) never returns is as bad as a crash.
// Seen with a block reader that skips iterator errors: a body shorter than its Content-Length makes
// net/http return io.ErrUnexpectedEOF on every read, and the CAR iterator then yields errors for ever.
func bytesWatchdog(what string, d time.Duration) (stop func()) {
	done := make(chan struct{})
	go func() {
		select {
		case <-done:
		case <-time.After(d):
			fmt.Fprintf(os.Stderr, "fatal error: watchdog: %s did not finish within %s (client.Execute or an accessor never returns)\n", what, d)
			os.Exit(3)
		}
	}()
	return func() { close(done) }
}

// ---------------------------------------------------------------------------
// C20: bodies through server.Request with acceptable headers: 400 (and no handler call) exactly when
// the model says the body is not a decodable agent message

func bytesC20(o genOpts, e *c20Env) error {
	set := &bytesSet{prefix: "bytes_C20"}
	var invs []invocation.Invocation
	for _, can := range []string{"test/echo", "test/raw", "test/none"} {
		inv, err := invocation.Invoke(e.alice, e.service, ucan.NewCapability(can, e.alice.DID().String(), ucan.NoCaveats{}), delegation.WithNoExpiration())
		if err != nil {
			return err
		}
		invs = append(invs, inv)
	}
	var look []ipld.Link
	for _, inv := range invs {
		look = append(look, inv.Link())
	}
	look = append(look, fakeLink(1))
	var other []ipld.Block
	for _, inv := range invs[:2] {
		for blk, err := range inv.Blocks() {
			if err == nil {
				other = append(other, blk)
			}
		}
	}
	rc := []ipld.Block{
		bytesMkBlock(cbMap(cbText("ocm"), cbMap(cbText("ran"), cbLink(look[0]))), ""),
		bytesMkBlock(cbMap(cbText("ocm"), cbMap(cbText("ran"), cbLink(look[1]))), ""),
	}
	var bodies []bytesBody
	for _, b := range e.bodies {
		bodies = append(bodies, bytesBody{"c20:" + b.Name, b.Bytes})
	}
	nre, nrnd, nmut := 0, 0, 0
	for _, bb := range bytesBodies(o.seed, o.tier, invs, look, rc, other) {
		if o.tier != "thorough" {
			switch k := bytesKind(bb.Label); {
			case strings.HasPrefix(k, "reencoded"):
				if nre++; nre > 100 {
					continue
				}
			case k == "random-root":
				if nrnd++; nrnd > 60 {
					continue
				}
			case k == "rawmut":
				if nmut++; nmut > 40 {
					continue
				}
			}
		}
		bodies = append(bodies, bb)
	}
	hdr := c20Header([]string{c20Car}, []string{c20Car})
	for i, bb := range bodies {
		c := &bytesCase{Label: fmt.Sprintf("body %d %s", i, bb.Label), Body: bb.Body, Status: 200, Lookups: look}
		c.Req = bytesObserveReq(bb.Body, look)
		before := e.calls.Load()
		var res transport.HTTPResponse
		var err error
		if p := recovered(func() { res, err = e.srv.Request(thttp.NewHTTPRequest(bytes.NewReader(bb.Body), hdr)) }); p != nil {
			c.Req.Panic = fmt.Sprintf("server.Request: %v", p)
		}
		calls := int(e.calls.Load() - before)
		c.Handle = 2
		if err == nil && res != nil {
			c.HStatus = res.Status()
			if res.Body() != nil {
				io.Copy(io.Discard, res.Body())
			}
			if c.HStatus == 400 && calls == 0 {
				c.Handle = 1
			}
		}
		set.add(c)
	}
	shards := 8
	if n := len(set.cases) / 250; n > shards {
		shards = n
	}
	return set.finish(o.out, shards)
}

// ---------------------------------------------------------------------------
// C11: the raw request stream (mutations of a valid request body, executed in the child process through
// Server.Request with acceptable headers): status 400 exactly when the model says "undecodable"

func bytesC11Limit(tier string) int {
	if tier == "thorough" {
		return 6000
	}
	return 300
}

// bytesC11Keep (child process): keep the body of raw item i for the parent, for the first bytesC11Limit raw items
func bytesC11Keep(out, tier string, items []*c11Item, i int) {
	ord := 0
	for j := i - 1; j >= 0 && items[j].Kind == "raw"; j-- {
		ord++
		if ord > bytesC11Limit(tier) {
			return
		}
	}
	if ord < bytesC11Limit(tier) {
		os.WriteFile(filepath.Join(out, fmt.Sprintf("raw_%06d.bin", i)), items[i].Raw, 0o644)
		if c11RawBase != nil {
			os.WriteFile(filepath.Join(out, "raw_base.bin"), c11RawBase, 0o644)
		}
	}
}

func bytesC11(o genOpts, raws [][]byte, doneLines []string) error {
	set := &bytesSet{prefix: "bytes_C11"}
	// the valid body the child mutated (bodies are only DESCRIBED relative to it), else this process's copy
	if b, err := os.ReadFile(filepath.Join(o.out, "raw_base.bin")); err == nil {
		set.addBase(b)
		os.Remove(filepath.Join(o.out, "raw_base.bin"))
	} else if c11RawBase != nil {
		set.addBase(c11RawBase)
	}
	limit := bytesC11Limit(o.tier)
	look := []ipld.Link{fakeLink(1)}
	for i, raw := range raws {
		if i >= limit {
			break
		}
		// "DONE <i> raw status=<s> err=<q>"
		status, errs := 0, ""
		for _, f := range strings.Fields(doneLines[i]) {
			if strings.HasPrefix(f, "status=") {
				fmt.Sscanf(f, "status=%d", &status)
			}
			if strings.HasPrefix(f, "err=") {
				errs = strings.Trim(f[4:], "\"")
			}
		}
		c := &bytesCase{Label: fmt.Sprintf("item %d raw-%d", i, i), Body: raw, Status: 200, Lookups: look}
		c.Req = bytesObserveReq(raw, look)
		c.HStatus = status
		c.Handle = 2
		if status == 400 && errs == "" {
			c.Handle = 1
		}
		set.add(c)
	}
	shards := 8
	if n := len(set.cases) / 250; n > shards {
		shards = n
	}
	return set.finish(o.out, shards)
}
