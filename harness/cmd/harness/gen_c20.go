package main

// C20: content negotiation / status mapping of server.Handle and the client
// HTTP channel.  Every request goes through server.NewServer(...).Request with a
// service whose methods record being called.

import (
	mh "github.com/multiformats/go-multihash"
	"github.com/ipfs/go-cid"
	"encoding/binary"
	"crypto/sha256"
	"bytes"
	"crypto/ed25519"
	"encoding/json"
	"errors"
	"fmt"
	"io"
	"math/rand"
	"net/http"
	"net/http/httptest"
	"net/url"
	"os"
	"sort"
	"strings"
	"sync/atomic"

	"github.com/storacha/go-ucanto/client"
	"github.com/storacha/go-ucanto/core/car"
	tcar "github.com/storacha/go-ucanto/transport/car"
	"github.com/storacha/go-ucanto/core/delegation"
	"github.com/storacha/go-ucanto/core/invocation"
	"github.com/storacha/go-ucanto/core/ipld"
	"github.com/storacha/go-ucanto/core/message"
	"github.com/storacha/go-ucanto/core/receipt/fx"
	"github.com/storacha/go-ucanto/core/result"
	"github.com/storacha/go-ucanto/core/result/failure"
	"github.com/storacha/go-ucanto/core/result/ok"
	"github.com/storacha/go-ucanto/core/schema"
	"github.com/storacha/go-ucanto/principal"
	"github.com/storacha/go-ucanto/principal/ed25519/signer"
	"github.com/storacha/go-ucanto/server"
	"github.com/storacha/go-ucanto/server/transaction"
	"github.com/storacha/go-ucanto/transport"
	"github.com/storacha/go-ucanto/transport/car/request"
	"github.com/storacha/go-ucanto/transport/car/response"
	thttp "github.com/storacha/go-ucanto/transport/http"
	"github.com/storacha/go-ucanto/ucan"
	"github.com/storacha/go-ucanto/validator"
)

const c20Car = "application/vnd.ipld.car"

// body classes given to the model: 0 = not a decodable agent message,
// 1 = decodable message with ninv invocations, all blocks present,
// 2 = decodable message whose invocation blocks are missing (Execute fails)
type c20Body struct {
	Name  string `json:"name"`
	Class int    `json:"class"`
	NInv  int    `json:"ninv"`
	Bytes []byte `json:"-"`
	Hex   string `json:"hex,omitempty"`
}

type c20Obs struct {
	Failure  int `json:"failure"`  // Handle returned an error instead of a response (2 = panic)
	Status   int `json:"status"`   // response status
	CT       int `json:"ct"`       // response Content-Type: 0 absent, 1 = CAR type, 2 other
	Decodes  int `json:"decodes"`  // response body decodes as an agent message
	Receipts int `json:"receipts"` // receipts in it
	Calls    int `json:"calls"`    // service method calls while the request was handled
	Direct   int `json:"direct"`   // request.Decode on the same body succeeds
}

type c20Case struct {
	CT   []string `json:"content_type"` // nil = header absent; otherwise one value per header line
	Acc  []string `json:"accept"`
	Body int      `json:"body"` // index into bodies
}

type noCaveatsReader struct{}

func (noCaveatsReader) Read(input any) (ucan.NoCaveats, failure.Failure) {
	return ucan.NoCaveats{}, nil
}

type c20Env struct {
	srv     server.ServerView
	service principal.Signer
	alice   principal.Signer
	calls   *atomic.Int64
	inner   *atomic.Int64
	bodies  []c20Body
}

func c20Signer(seed int64, k byte) principal.Signer {
	// deterministic Ed25519 key from the seed: 0x1300 seed 0xed public-key
	r := rand.New(rand.NewSource(seed*1000 + int64(k)))
	sk := make([]byte, 32)
	r.Read(sk)
	priv := ed25519.NewKeyFromSeed(sk)
	b := append([]byte{0x80, 0x26}, sk...)
	b = append(b, 0xed, 0x01)
	b = append(b, priv.Public().(ed25519.PublicKey)...)
	s, err := signer.Decode(b)
	if err != nil {
		panic(err)
	}
	return s
}

func readAll(r io.Reader) []byte {
	b, _ := io.ReadAll(r)
	return b
}

func newC20Env(seed int64) (*c20Env, error) {
	e := &c20Env{calls: &atomic.Int64{}, inner: &atomic.Int64{}}
	e.service = c20Signer(seed, 1)
	e.alice = c20Signer(seed, 2)
	echo := validator.NewCapability[ucan.NoCaveats]("test/echo", schema.DIDString(), noCaveatsReader{}, nil)
	provided := server.Provide(echo, func(cap ucan.Capability[ucan.NoCaveats], inv invocation.Invocation, ctx server.InvocationContext) (ok.Unit, fx.Effects, error) {
		e.inner.Add(1)
		return ok.Unit{}, nil, nil
	})
	srv, err := server.NewServer(e.service,
		server.WithServiceMethod("test/echo", func(inv invocation.Invocation, ctx server.InvocationContext) (transaction.Transaction[ok.Unit, ipld.Builder], error) {
			e.calls.Add(1)
			return provided(inv, ctx)
		}),
		server.WithServiceMethod("test/raw", func(inv invocation.Invocation, ctx server.InvocationContext) (transaction.Transaction[ok.Unit, ipld.Builder], error) {
			e.calls.Add(1)
			return transaction.NewTransaction(result.Ok[ok.Unit, ipld.Builder](ok.Unit{})), nil
		}),
		server.WithErrorHandler(func(err server.HandlerExecutionError[any]) {}),
	)
	if err != nil {
		return nil, err
	}
	e.srv = srv
	mkInv := func(can string) (invocation.Invocation, error) {
		return invocation.Invoke(e.alice, e.service, ucan.NewCapability(can, e.alice.DID().String(), ucan.NoCaveats{}),
			delegation.WithNoExpiration())
	}
	inv1, err := mkInv("test/echo")
	if err != nil {
		return nil, err
	}
	inv2, err := mkInv("test/raw")
	if err != nil {
		return nil, err
	}
	encMsg := func(invs []invocation.Invocation) ([]byte, message.AgentMessage, error) {
		m, err := message.Build(invs, nil)
		if err != nil {
			return nil, nil, err
		}
		req, err := request.Encode(m)
		if err != nil {
			return nil, nil, err
		}
		return readAll(req.Body()), m, nil
	}
	b1, m1, err := encMsg([]invocation.Invocation{inv1})
	if err != nil {
		return nil, err
	}
	b2, _, err := encMsg([]invocation.Invocation{inv1, inv2})
	if err != nil {
		return nil, err
	}
	b0, _, err := encMsg(nil)
	if err != nil {
		return nil, err
	}
	// the message root block alone: the invocation it lists is not in the CAR
	rootOnly := func(yield func(ipld.Block, error) bool) { yield(m1.Root(), nil) }
	bMissing := readAll(car.Encode([]ipld.Link{m1.Root().Link()}, rootOnly))
	// a valid CAR whose root is a UCAN block, not an agent message
	bNonMsg := readAll(car.Encode([]ipld.Link{inv1.Link()}, inv1.Blocks()))
	// a delegation archive (root is an archive descriptor block)
	bArchive := readAll(delegation.Archive(inv1))
	// a CAR header without roots followed by the blocks of a message
	bNoRoots := readAll(car.Encode(nil, m1.Blocks()))
	// a message CAR with the last 7 bytes cut off
	bTrunc := append([]byte{}, b1[:len(b1)-7]...)
	// a valid message followed by one more section whose bytes do NOT hash to its CID (one bit flipped), under a raw-codec
	// and under a dag-cbor CID: the body is not a well-formed archive
	corrupt := func(codec uint64) []byte {
		data := []byte("an attached payload, a few dozen bytes long, nothing decodes it")
		sum := sha256.Sum256(data)
		d, _ := mh.Encode(sum[:], mh.SHA2_256)
		c := cid.NewCidV1(codec, d).Bytes()
		bad := append([]byte{}, data...)
		bad[len(bad)/2] ^= 0x04
		sec := append(append(binary.AppendUvarint(nil, uint64(len(c)+len(bad))), c...), bad...)
		return append(append([]byte{}, b1...), sec...)
	}
	bCorruptRaw, bCorruptCbor := corrupt(0x55), corrupt(0x71)
	gr := rand.New(rand.NewSource(seed*7919 + 3))
	garbage := make([]byte, 64+gr.Intn(200))
	gr.Read(garbage)
	e.bodies = []c20Body{
		{Name: "message-1-invocation", Class: 1, NInv: 1, Bytes: b1},
		{Name: "message-2-invocations", Class: 1, NInv: 2, Bytes: b2},
		{Name: "message-0-invocations", Class: 1, NInv: 0, Bytes: b0},
		{Name: "empty", Class: 0, Bytes: []byte{}},
		{Name: "garbage", Class: 0, Bytes: garbage},
		{Name: "car-root-not-a-message", Class: 0, Bytes: bNonMsg},
		{Name: "car-delegation-archive", Class: 0, Bytes: bArchive},
		{Name: "car-no-roots", Class: 0, Bytes: bNoRoots},
		{Name: "car-truncated-message", Class: 0, Bytes: bTrunc},
		{Name: "message-then-corrupt-raw-section", Class: 0, Bytes: bCorruptRaw},
		{Name: "message-then-corrupt-dag-cbor-section", Class: 0, Bytes: bCorruptCbor},
		{Name: "message-invocation-block-missing", Class: 2, NInv: 1, Bytes: bMissing},
	}
	return e, nil
}

func c20Header(ct, acc []string) http.Header {
	h := http.Header{}
	for _, v := range ct {
		h.Add("Content-Type", v)
	}
	for _, v := range acc {
		h.Add("Accept", v)
	}
	return h
}

func (e *c20Env) run(c c20Case) c20Obs {
	var o c20Obs
	body := e.bodies[c.Body].Bytes
	if p := recovered(func() {
		_, err := request.Decode(thttp.NewHTTPRequest(bytes.NewReader(body), c20Header(c.CT, c.Acc)))
		if err == nil {
			o.Direct = 1
		}
	}); p != nil {
		o.Direct = 2
	}
	before := e.calls.Load()
	var res transport.HTTPResponse
	var err error
	if p := recovered(func() {
		res, err = e.srv.Request(thttp.NewHTTPRequest(bytes.NewReader(body), c20Header(c.CT, c.Acc)))
	}); p != nil {
		o.Failure = 2
		o.Calls = int(e.calls.Load() - before)
		return o
	}
	o.Calls = int(e.calls.Load() - before)
	if err != nil || res == nil {
		o.Failure = 1
		return o
	}
	o.Status = res.Status()
	if hs := res.Headers(); hs != nil {
		if vs := hs.Values("Content-Type"); len(vs) > 0 {
			if len(vs) == 1 && vs[0] == c20Car {
				o.CT = 1
			} else {
				o.CT = 2
			}
		}
	}
	recovered(func() {
		raw := readAll(res.Body())
		m, derr := response.Decode(thttp.NewHTTPResponse(res.Status(), bytes.NewReader(raw), res.Headers()))
		if derr == nil {
			o.Decodes = 1
			recovered(func() { o.Receipts = len(m.Receipts()) })
		}
	})
	return o
}

func coqStrList(vs []string) string {
	if len(vs) == 0 {
		return "[]"
	}
	var items []string
	for _, v := range vs {
		items = append(items, hxs(v))
	}
	return "[" + strings.Join(items, "; ") + "]"
}

func c20CaseTerm(e *c20Env, c c20Case, o c20Obs) string {
	b := e.bodies[c.Body]
	return fmt.Sprintf("(%s, %s, %d, %d, (%d, %d%%Z, %d, %d, %d, %d, %d))", coqStrList(c.CT), coqStrList(c.Acc),
		b.Class, b.NInv, o.Failure, o.Status, o.CT, o.Decodes, o.Receipts, o.Calls, o.Direct)
}

var c20CTs = [][]string{
	nil,
	{c20Car},
	{c20Car + "; version=1"},
	{"text/plain"},
	{""},
	{"APPLICATION/VND.IPLD.CAR"},
	{c20Car + " "},
	{"application/json, " + c20Car},
	{c20Car, "text/plain"},
	{"text/plain", c20Car},
}

var c20Accs = [][]string{
	nil,
	{""},
	{c20Car},
	{"*/*"},
	{"text/html"},
	{"text/html, */*;q=0.1"},
	{"text/html,application/json"},
	{"application/json, " + c20Car + ";q=0.9"},
	{c20Car + "; q=0.5"},
	{"application/vnd.ipld.carx"},
	{"xapplication/vnd.ipld.car"},
	{"image/*/*"},
	{"text/html", "*/*"},
	{"text/html", c20Car},
	{"text/html", "application/json"},
	{" \t" + c20Car + "\t "},
	{"*/*;q=0"},
	{"application/*"},
	{", ," + c20Car},
	{"text/html;" + c20Car},
	{"Application/Vnd.Ipld.Car"},
	{"text/html;q=0.9,*/*"},
}

// random header grammar ------------------------------------------------

var c20Ranges = []string{
	c20Car, c20Car, "*/*", "*/*", "text/html", "application/json", "application/*", "*", "*/", "/*",
	"application/vnd.ipld.carx", "xapplication/vnd.ipld.car", "application/vnd.ipld.ca", "image/*/*", "**/*", "*/**",
	"Application/Vnd.Ipld.Car", "APPLICATION/VND.IPLD.CAR", "application/vnd.ipld.car+json", "application/vnd.ipld.raw",
	"", "text/plain", "a", "application/vnd.ipld .car", "\"*/*\"",
}
var c20Params = []string{"", "", "", ";q=0.1", "; q=0.9", ";q=0", " ;q=1", ";version=1", ";v=1;q=0.5", ";", ";*/*", ";" + c20Car, "; charset=utf-8"}
var c20Ws = []string{"", "", "", " ", "  ", "\t", " \t ", " ", "\n", "\v", "\r"}
var c20Seps = []string{",", ",", ",", ", ", " , ", ",,", ",\t", ";", " "}

func c20Pick(r *rand.Rand, xs []string) string { return xs[r.Intn(len(xs))] }

func c20RandValue(r *rand.Rand) string {
	n := 1 + r.Intn(4)
	if r.Intn(12) == 0 {
		n = 0
	}
	var sb strings.Builder
	for i := 0; i < n; i++ {
		if i > 0 {
			sb.WriteString(c20Pick(r, c20Seps))
		}
		sb.WriteString(c20Pick(r, c20Ws))
		sb.WriteString(c20Pick(r, c20Ranges))
		sb.WriteString(c20Pick(r, c20Ws))
		sb.WriteString(c20Pick(r, c20Params))
		if r.Intn(6) == 0 {
			sb.WriteString(c20Pick(r, c20Ws))
		}
	}
	s := sb.String()
	if r.Intn(25) == 0 && len(s) > 0 { // one random byte replaced
		b := []byte(s)
		b[r.Intn(len(b))] = byte(r.Intn(256))
		s = string(b)
	}
	return s
}

func c20RandHeader(r *rand.Rand, acceptLike bool) []string {
	switch k := r.Intn(10); {
	case k == 0:
		return nil
	case k <= 6 || !acceptLike:
		if !acceptLike && r.Intn(2) == 0 {
			// content types are mostly single values
			return []string{c20Pick(r, c20Ws) + c20Pick(r, c20Ranges) + c20Pick(r, c20Params)}
		}
		return []string{c20RandValue(r)}
	default:
		n := 2 + r.Intn(2)
		var vs []string
		for i := 0; i < n; i++ {
			vs = append(vs, c20RandValue(r))
		}
		return vs
	}
}

func c20RandCase(r *rand.Rand, nb int) c20Case {
	var c c20Case
	if r.Intn(3) != 0 {
		c.CT = []string{c20Car}
		if r.Intn(8) == 0 {
			c.CT = append(c.CT, c20RandValue(r))
		}
	} else {
		c.CT = c20RandHeader(r, false)
	}
	c.Acc = c20RandHeader(r, true)
	c.Body = r.Intn(nb)
	return c
}

// client channel ---------------------------------------------------------

type c20ChanCase struct {
	Status  int  `json:"status"`
	CarBody bool `json:"car_body"`
	// observed: 0 = (response with that status, nil); 1 = HTTPError with Status() == status;
	// 2 = HTTPError with another status; 3 = another error; 4 = response with another status
	Chan int `json:"chan"`
	// client.Execute over the same channel: 0 = success, 1 = error; -1 = not run
	Exec int `json:"exec"`
}

func c20ClientSweep(e *c20Env, statuses []int, execStatuses map[int]bool) ([]c20ChanCase, error) {
	// a valid reply body: the server's own answer to a one-invocation message
	okRes, err := e.srv.Request(thttp.NewHTTPRequest(bytes.NewReader(e.bodies[0].Bytes), c20Header([]string{c20Car}, []string{c20Car})))
	if err != nil {
		return nil, err
	}
	carBody := readAll(okRes.Body())
	ts := httptest.NewServer(http.HandlerFunc(func(w http.ResponseWriter, r *http.Request) {
		io.Copy(io.Discard, r.Body)
		var st int
		fmt.Sscanf(r.URL.Query().Get("s"), "%d", &st)
		withCar := r.URL.Query().Get("car") == "1"
		if r.URL.Query().Get("loc") == "1" {
			// the reply names another location (which would answer 200 with a valid CAR body): still a non-200 reply
			w.Header().Set("Location", "/?s=200&car=1")
		}
		if withCar {
			w.Header().Set("Content-Type", c20Car)
		} else {
			w.Header().Set("Content-Type", "text/plain")
		}
		w.WriteHeader(st)
		if withCar {
			w.Write(carBody)
		} else {
			w.Write([]byte("refused"))
		}
	}))
	defer ts.Close()
	inv, err := invocation.Invoke(e.alice, e.service, ucan.NewCapability("test/echo", e.alice.DID().String(), ucan.NoCaveats{}), delegation.WithNoExpiration())
	if err != nil {
		return nil, err
	}
	var res []c20ChanCase
	for _, st := range statuses {
		for vi, withCar := range []bool{true, false, true} {
			q := "0"
			if withCar {
				q = "1"
			}
			if vi == 2 {
				if st == 200 || (st/100 != 3 && st != 201 && st != 202) {
					continue
				}
				q += "&loc=1"
			}
			u, _ := url.Parse(fmt.Sprintf("%s/?s=%d&car=%s", ts.URL, st, q))
			ch := thttp.NewHTTPChannel(u)
			c := c20ChanCase{Status: st, CarBody: withCar, Exec: -1}
			r, err := ch.Request(thttp.NewHTTPRequest(bytes.NewReader(e.bodies[0].Bytes), c20Header([]string{c20Car}, []string{c20Car})))
			switch {
			case err == nil && r != nil:
				if r.Status() == st {
					c.Chan = 0
				} else {
					c.Chan = 4
				}
				io.Copy(io.Discard, r.Body())
				if cl, ok := r.Body().(io.Closer); ok {
					cl.Close()
				}
			default:
				var he transport.HTTPError
				if errors.As(err, &he) {
					if he.Status() == st {
						c.Chan = 1
					} else {
						c.Chan = 2
					}
				} else {
					c.Chan = 3
				}
			}
			if execStatuses[st] {
				conn, cerr := client.NewConnection(e.service, ch)
				if cerr != nil {
					return nil, cerr
				}
				var xerr error
				if p := recovered(func() { _, xerr = client.Execute([]invocation.Invocation{inv}, conn) }); p != nil {
					c.Exec = 2
				} else if xerr != nil {
					c.Exec = 1
				} else {
					c.Exec = 0
				}
			}
			res = append(res, c)
		}
	}
	return res, nil
}

const c20Prelude = "From Ucanto Require Import Base Strs Http Check_C20.\nOpen Scope N_scope.\n"

func c20WriteCases(dir, name string, e *c20Env, cases []c20Case, obs []c20Obs) error {
	var items []string
	for i := range cases {
		items = append(items, c20CaseTerm(e, cases[i], obs[i]))
	}
	var sb strings.Builder
	sb.WriteString(c20Prelude)
	fmt.Fprintf(&sb, "Definition cases : list c20case := %s.\n", coqList(items))
	sb.WriteString("Definition M := Eval vm_compute in check_cases_detail cases.\nPrint M.\n")
	return writeFile(dir, name, sb.String())
}

var c20ExecStatuses = map[int]bool{200: true, 201: true, 204: true, 301: true, 302: true, 303: true, 307: true, 308: true, 400: true, 406: true, 415: true, 500: true, 503: true}

func c20WriteClient(dir, name string, chans []c20ChanCase) error {
	var citems []string
	for _, c := range chans {
		citems = append(citems, fmt.Sprintf("(%d%%Z, %s, %d, (%d)%%Z)", c.Status, coqBool(c.CarBody), c.Chan, c.Exec))
	}
	var sb strings.Builder
	sb.WriteString(c20Prelude)
	fmt.Fprintf(&sb, "Definition cases : list (Z * bool * N * Z) := %s.\n", coqList(citems))
	sb.WriteString("Definition M := Eval vm_compute in check_client cases.\nPrint M.\n")
	return writeFile(dir, name, sb.String())
}

func c20Statuses() []int {
	var s []int
	s = append(s, 101)
	for st := 200; st <= 599; st++ {
		s = append(s, st)
	}
	return append(s, 600, 700, 999)
}

func init() {
	gens["C20"] = func(o genOpts) error {
		e, err := newC20Env(o.seed)
		if err != nil {
			return err
		}
		// 1. full product
		var cases []c20Case
		for _, ct := range c20CTs {
			for _, acc := range c20Accs {
				for b := range e.bodies {
					cases = append(cases, c20Case{CT: ct, Acc: acc, Body: b})
				}
			}
		}
		nprod := len(cases)
		// 2. random header grammar
		nrand := 600
		if o.tier == "thorough" {
			nrand = 20000
		}
		r := rand.New(rand.NewSource(o.seed))
		for i := 0; i < nrand; i++ {
			cases = append(cases, c20RandCase(r, len(e.bodies)))
		}
		obs := make([]c20Obs, len(cases))
		hist := map[string]int{}
		byBody := map[string]int{}
		impl, err := os.Create(o.out + "/impl.jsonl")
		if err != nil {
			return err
		}
		defer impl.Close()
		enc := json.NewEncoder(impl)
		for i, c := range cases {
			obs[i] = e.run(c)
			k := fmt.Sprintf("%d", obs[i].Status)
			if obs[i].Failure != 0 {
				k = fmt.Sprintf("failure-%d", obs[i].Failure)
			}
			hist[k]++
			byBody[e.bodies[c.Body].Name]++
			enc.Encode(map[string]any{"id": i, "case": c, "body": e.bodies[c.Body].Name, "class": e.bodies[c.Body].Class, "ninv": e.bodies[c.Body].NInv, "obs": obs[i]})
		}
		const per = 1000
		var files []map[string]any
		for k, lo := 0, 0; lo < len(cases); k, lo = k+1, lo+per {
			hi := lo + per
			if hi > len(cases) {
				hi = len(cases)
			}
			name := fmt.Sprintf("cases_C20_%03d.v", k)
			if err := c20WriteCases(o.out, name, e, cases[lo:hi], obs[lo:hi]); err != nil {
				return err
			}
			files = append(files, map[string]any{"file": name, "offset": lo, "n": hi - lo})
		}
		// 3. client channel
		chans, err := c20ClientSweep(e, c20Statuses(), c20ExecStatuses)
		if err != nil {
			return err
		}
		chist := map[string]int{}
		for _, c := range chans {
			chist[fmt.Sprintf("chan=%d", c.Chan)]++
		}
		if err := c20WriteClient(o.out, "client_C20.v", chans); err != nil {
			return err
		}
		var bodies []map[string]any
		for _, b := range e.bodies {
			bodies = append(bodies, map[string]any{"name": b.Name, "class": b.Class, "ninv": b.NInv, "len": len(b.Bytes), "hex": fmt.Sprintf("%x", b.Bytes)})
		}
		var samples []map[string]any
		for _, i := range []int{0, 13, nprod / 2, nprod - 1, nprod, nprod + 1, nprod + 2} {
			if i < len(cases) {
				samples = append(samples, map[string]any{"id": i, "content_type": cases[i].CT, "accept": cases[i].Acc, "body": e.bodies[cases[i].Body].Name, "obs": obs[i]})
			}
		}
		keys := make([]string, 0, len(hist))
		for k := range hist {
			keys = append(keys, k)
		}
		sort.Strings(keys)
		// byte-level model of request.Decode (gen_bytes.go): 400 exactly when the body is undecodable
		if err := bytesC20(o, e); err != nil {
			return err
		}
		codecViol, codecRuns := c20ConfiguredCodec(e)
		return writeJSON(o.out, "stats.json", map[string]any{
			"configured_codec_violations": codecViol, "configured_codec_requests": codecRuns,
			"product": nprod, "random": nrand, "content_types": len(c20CTs), "accepts": len(c20Accs), "bodies": bodies,
			"status_histogram": hist, "by_body": byBody, "files": files, "samples": samples,
			"client_cases": len(chans), "client_histogram": chist, "client": chans, "inner_handler_calls": e.inner.Load(),
		})
	}

	// harness c20-one <json case {content_type, accept, body}> <seed> <outdir>: one request, for replays
	extraCmds["c20-one"] = func(args []string) int {
		if len(args) < 3 {
			fmt.Fprintln(os.Stderr, "usage: harness c20-one '<json>' <seed> <outdir>")
			return 2
		}
		var in struct {
			CT   []string `json:"content_type"`
			Acc  []string `json:"accept"`
			Body string   `json:"body"`
			// client replays: the status the test server answers with
			ClientStatus *int `json:"client_status"`
		}
		if err := json.Unmarshal([]byte(args[0]), &in); err != nil {
			fmt.Fprintln(os.Stderr, err)
			return 2
		}
		var seed int64
		fmt.Sscanf(args[1], "%d", &seed)
		e, err := newC20Env(seed)
		if err != nil {
			fmt.Fprintln(os.Stderr, err)
			return 1
		}
		if in.ClientStatus != nil {
			chans, err := c20ClientSweep(e, []int{*in.ClientStatus}, map[int]bool{*in.ClientStatus: true})
			if err != nil {
				fmt.Fprintln(os.Stderr, err)
				return 1
			}
			if err := c20WriteClient(args[2], "cases_C20_replay.v", chans); err != nil {
				fmt.Fprintln(os.Stderr, err)
				return 1
			}
			js, _ := json.Marshal(map[string]any{"client": chans})
			fmt.Println(string(js))
			return 0
		}
		bi := -1
		for i, b := range e.bodies {
			if b.Name == in.Body {
				bi = i
			}
		}
		if bi < 0 {
			fmt.Fprintln(os.Stderr, "unknown body", in.Body)
			return 2
		}
		c := c20Case{CT: in.CT, Acc: in.Acc, Body: bi}
		ob := e.run(c)
		if err := c20WriteCases(args[2], "cases_C20_replay.v", e, []c20Case{c}, []c20Obs{ob}); err != nil {
			fmt.Fprintln(os.Stderr, err)
			return 1
		}
		js, _ := json.Marshal(map[string]any{"case": c, "body": in.Body, "obs": ob})
		fmt.Println(string(js))
		return 0
	}
}

// ---------------------------------------------------------------------------
// A server configured with its OWN inbound codec (server.WithInboundCodec): the codec decides.  The
// codec below refuses, with 412 and its own header, every request that lacks the X-Tenant header and
// hands the rest to the CAR codec.  A refused request must be answered with the codec's status and run
// nothing; a request it lets through must be answered as the stock server answers it.

type c20TenantCodec struct {
	inner transport.InboundCodec
	calls *atomic.Int64
}

func (c c20TenantCodec) Accept(req transport.HTTPRequest) (transport.InboundAcceptCodec, transport.HTTPError) {
	c.calls.Add(1)
	if req.Headers().Get("X-Tenant") == "" {
		hd := http.Header{}
		hd.Set("X-Tenant-Required", "1")
		return nil, thttp.NewHTTPError("a tenant header is required", http.StatusPreconditionFailed, hd)
	}
	return c.inner.Accept(req)
}

func c20ConfiguredCodec(e *c20Env) (viol []map[string]any, runs int) {
	calls, consulted := &atomic.Int64{}, &atomic.Int64{}
	srv, err := server.NewServer(e.service,
		server.WithInboundCodec(c20TenantCodec{inner: tcar.NewCARInboundCodec(), calls: consulted}),
		server.WithServiceMethod("test/echo", func(inv invocation.Invocation, ctx server.InvocationContext) (transaction.Transaction[ok.Unit, ipld.Builder], error) {
			calls.Add(1)
			return transaction.NewTransaction(result.Ok[ok.Unit, ipld.Builder](ok.Unit{})), nil
		}),
		server.WithServiceMethod("test/raw", func(inv invocation.Invocation, ctx server.InvocationContext) (transaction.Transaction[ok.Unit, ipld.Builder], error) {
			calls.Add(1)
			return transaction.NewTransaction(result.Ok[ok.Unit, ipld.Builder](ok.Unit{})), nil
		}),
		server.WithErrorHandler(func(err server.HandlerExecutionError[any]) {}),
	)
	if err != nil {
		return []map[string]any{{"what": "NewServer with WithInboundCodec failed: " + err.Error()}}, 0
	}
	bad := func(what string, bi int, hdr http.Header, extra map[string]any) {
		m := map[string]any{"what": what, "body": e.bodies[bi].Name, "body_hex": fmt.Sprintf("%x", e.bodies[bi].Bytes), "headers": hdr}
		for k, v := range extra {
			m[k] = v
		}
		viol = append(viol, m)
	}
	for bi := range e.bodies {
		for _, ct := range []string{car.ContentType, "application/json", ""} {
			for _, acc := range []string{car.ContentType, "*/*", "text/html", ""} {
				for _, tenant := range []string{"", "t1"} {
					hdr := http.Header{}
					if ct != "" {
						hdr.Set("Content-Type", ct)
					}
					if acc != "" {
						hdr.Set("Accept", acc)
					}
					if tenant != "" {
						hdr.Set("X-Tenant", tenant)
					}
					runs++
					before, cbefore := calls.Load(), consulted.Load()
					var res transport.HTTPResponse
					var rerr error
					if p := recovered(func() { res, rerr = srv.Request(thttp.NewHTTPRequest(bytes.NewReader(e.bodies[bi].Bytes), hdr.Clone())) }); p != nil {
						bad(fmt.Sprintf("server.Request panicked: %v", p), bi, hdr, nil)
						continue
					}
					if rerr != nil || res == nil {
						// let through: the stock server may return the same error (a message naming a block that did not travel)
						same := false
						if tenant != "" {
							recovered(func() {
								ref, referr := e.srv.Request(thttp.NewHTTPRequest(bytes.NewReader(e.bodies[bi].Bytes), hdr.Clone()))
								same = (referr != nil || ref == nil) && calls.Load() == before
							})
						}
						if !same {
							bad(fmt.Sprintf("server.Request returned an error instead of a response: %v", rerr), bi, hdr, nil)
						}
						continue
					}
					ran := calls.Load() - before
					if consulted.Load() == cbefore {
						bad("the configured inbound codec was not consulted", bi, hdr, map[string]any{"status": res.Status()})
					}
					if tenant == "" {
						if res.Status() != http.StatusPreconditionFailed || ran != 0 {
							bad(fmt.Sprintf("the configured codec refuses this request with 412; the server answered %d and ran %d handler(s)", res.Status(), ran), bi, hdr,
								map[string]any{"status": res.Status(), "handler_calls": ran})
						}
						continue
					}
					// let through: the stock server's answer to the same request
					sb := e.calls.Load()
					var ref transport.HTTPResponse
					if p := recovered(func() { ref, _ = e.srv.Request(thttp.NewHTTPRequest(bytes.NewReader(e.bodies[bi].Bytes), hdr.Clone())) }); p != nil || ref == nil {
						continue
					}
					sran := e.calls.Load() - sb
					if ref.Status() != res.Status() || sran != ran {
						bad(fmt.Sprintf("a request the configured codec hands to the CAR codec is answered %d with %d handler call(s); the stock server answers %d with %d", res.Status(), ran, ref.Status(), sran),
							bi, hdr, map[string]any{"status": res.Status(), "handler_calls": ran})
					}
				}
			}
		}
	}
	return viol, runs
}
