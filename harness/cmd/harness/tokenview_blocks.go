package main

// tokenview_blocks.go — hand-written UCAN root blocks for the token-view correspondence
// (coq/TokenBytes.v token_decode_typed): every field of a real, signed token is re-encoded by
// hand and the map is rearranged, repeated, extended, cut and mistyped.  Each block is wrapped
// with delegation.NewDelegation and read through the same accessors as the tokens of the worlds;
// Check_TokenView compares view_block(bytes) with that reading — including "the model stays zero"
// for everything bindnode refuses, last-wins / concatenation for repeated fields and the
// wrap-around of integers into Go's int.

import (
	"fmt"
	"sort"

	ipldprime "github.com/ipld/go-ipld-prime"
	"github.com/ipld/go-ipld-prime/codec/dagcbor"
	"github.com/ipld/go-ipld-prime/datamodel"
	"github.com/ipld/go-ipld-prime/fluent/qp"
	"github.com/ipld/go-ipld-prime/node/basicnode"
	"github.com/storacha/go-ucanto/core/dag/blockstore"
	"github.com/storacha/go-ucanto/core/delegation"
	"github.com/storacha/go-ucanto/core/ipld"
	"github.com/storacha/go-ucanto/ucan"
	udm "github.com/storacha/go-ucanto/ucan/datamodel/ucan"
)

type tvVariant struct {
	label string
	data  []byte
}

func cbNeg(n uint64) []byte { return cbHead(1, n) } // the integer -1-n

func nodeBytes(n datamodel.Node) []byte {
	b, err := ipldprime.Encode(n, dagcbor.Encode)
	if err != nil {
		panic(err)
	}
	return b
}

// tvFields: the fields of a decoded token, each as the dag-cbor bytes of its value
type tvFields struct {
	keys []string // canonical order of the keys that are present
	val  map[string][]byte
	caps [][3][]byte // with, can, nb of every capability
}

func tvFieldsOf(m *udm.UCANModel) *tvFields {
	f := &tvFields{val: map[string][]byte{}}
	f.val["v"] = cbText(m.V)
	f.val["iss"] = cbBytes(m.Iss)
	f.val["aud"] = cbBytes(m.Aud)
	f.val["s"] = cbBytes(m.S)
	var caps [][]byte
	for _, c := range m.Att {
		nb := nodeBytes(c.Nb)
		f.caps = append(f.caps, [3][]byte{cbText(c.With), cbText(c.Can), nb})
		caps = append(caps, cbMap(cbText("nb"), nb, cbText("can"), cbText(c.Can), cbText("with"), cbText(c.With)))
	}
	f.val["att"] = cbList(caps...)
	{
		// the library always writes prf (an empty list when there is no proof; it reads back as absent)
		var ls [][]byte
		for _, l := range m.Prf {
			ls = append(ls, cbLink(l))
		}
		f.val["prf"] = cbList(ls...)
	}
	if m.Exp == nil {
		f.val["exp"] = cbNull
	} else {
		f.val["exp"] = cbInt(uint64(*m.Exp))
	}
	if m.Fct != nil {
		var fs [][]byte
		for _, fc := range m.Fct {
			var kv [][]byte
			ks := append([]string{}, fc.Keys...)
			sort.Slice(ks, func(i, j int) bool {
				if len(ks[i]) != len(ks[j]) {
					return len(ks[i]) < len(ks[j])
				}
				return ks[i] < ks[j]
			})
			for _, k := range ks {
				kv = append(kv, cbText(k), nodeBytes(fc.Values[k]))
			}
			fs = append(fs, cbMap(kv...))
		}
		f.val["fct"] = cbList(fs...)
	}
	if m.Nnc != nil {
		f.val["nnc"] = cbText(*m.Nnc)
	}
	if m.Nbf != nil {
		f.val["nbf"] = cbInt(uint64(*m.Nbf))
	}
	for _, k := range []string{"s", "v", "att", "aud", "exp", "fct", "iss", "nbf", "nnc", "prf"} {
		if _, ok := f.val[k]; ok {
			f.keys = append(f.keys, k)
		}
	}
	return f
}

// entries in the given key order, with replacements / removals
func (f *tvFields) entries(order []string, repl map[string][]byte) [][]byte {
	var kv [][]byte
	for _, k := range order {
		v, ok := f.val[k]
		if r, has := repl[k]; has {
			if r == nil {
				continue
			}
			v, ok = r, true
		}
		if !ok {
			continue
		}
		kv = append(kv, cbText(k), v)
	}
	return kv
}

func (f *tvFields) with(repl map[string][]byte, extra ...[]byte) []byte {
	kv := f.entries(f.keys, repl)
	// a replacement for a key that is absent is appended (e.g. nbf on a token without one)
	for k, v := range repl {
		if _, ok := f.val[k]; !ok && v != nil {
			kv = append(kv, cbText(k), v)
		}
	}
	return cbMap(append(kv, extra...)...)
}

// att with capability i replaced by the given map bytes
func (f *tvFields) attWith(i int, capBytes []byte) []byte {
	var caps [][]byte
	for j, c := range f.caps {
		if j == i {
			caps = append(caps, capBytes)
		} else {
			caps = append(caps, cbMap(cbText("nb"), c[2], cbText("can"), c[1], cbText("with"), c[0]))
		}
	}
	return cbList(caps...)
}

func tvVariants(f *tvFields) []tvVariant {
	var vs []tvVariant
	add := func(label string, data []byte) { vs = append(vs, tvVariant{label, data}) }
	u64max := []byte{0x1b, 0xff, 0xff, 0xff, 0xff, 0xff, 0xff, 0xff, 0xff}
	u63 := []byte{0x1b, 0x80, 0, 0, 0, 0, 0, 0, 0}
	negmax := []byte{0x3b, 0xff, 0xff, 0xff, 0xff, 0xff, 0xff, 0xff, 0xff} // -2^64
	neg63 := []byte{0x3b, 0x7f, 0xff, 0xff, 0xff, 0xff, 0xff, 0xff, 0xff}  // -2^63
	c0 := f.caps[0]

	// --- arrangements that keep every field: the signature must still verify
	add("canonical", f.with(nil))
	rev := append([]string{}, f.keys...)
	for i, j := 0, len(rev)-1; i < j; i, j = i+1, j-1 {
		rev[i], rev[j] = rev[j], rev[i]
	}
	add("reversed-key-order", cbMap(f.entries(rev, nil)...))
	add("indefinite-map", cbMapIndef(f.entries(f.keys, nil)...))
	add("tagged-map", cat([]byte{0xc1}, f.with(nil)))
	add("non-minimal-count", cat([]byte{0xb9, 0, byte(len(f.keys))}, cat(f.entries(f.keys, nil)...)))
	add("iss-twice-same", f.with(nil, cbText("iss"), f.val["iss"]))
	add("exp-twice-same", f.with(nil, cbText("exp"), f.val["exp"]))
	add("att-then-empty-att", f.with(nil, cbText("att"), cbList()))
	add("empty-att-then-att", cbMap(append([][]byte{cbText("att"), cbList()}, f.entries(f.keys, nil)...)...))
	add("att-indefinite-list", f.with(map[string][]byte{"att": cbListIndef(cbMap(cbText("nb"), c0[2], cbText("can"), c0[1], cbText("with"), c0[0]))}))
	add("cap-keys-reordered", f.with(map[string][]byte{"att": f.attWith(0, cbMap(cbText("with"), c0[0], cbText("can"), c0[1], cbText("nb"), c0[2]))}))
	add("cap-can-twice-same", f.with(map[string][]byte{"att": f.attWith(0, cbMap(cbText("nb"), c0[2], cbText("can"), c0[1], cbText("with"), c0[0], cbText("can"), c0[1]))}))
	add("prf-twice-same", f.with(nil, cbText("prf"), f.val["prf"]))
	add("prf-then-empty", f.with(nil, cbText("prf"), cbList()))
	add("prf-removed", f.with(map[string][]byte{"prf": nil}))

	// --- repeated fields with another value: last wins (att: concatenated)
	add("iss-twice-other", f.with(nil, cbText("iss"), f.val["aud"]))
	add("aud-twice-other", f.with(nil, cbText("aud"), cbBytes([]byte{0x9d, 0x1a, 'w', 'e', 'b', ':', 'x'})))
	add("s-twice-other", f.with(nil, cbText("s"), cbBytes([]byte{0xed, 0xa1, 0x03, 0x01, 0x07})))
	add("v-twice-other", f.with(nil, cbText("v"), cbText("9.9.9")))
	add("exp-twice-other", f.with(nil, cbText("exp"), cbInt(7)))
	add("exp-int-then-null", f.with(nil, cbText("exp"), cbNull))
	add("att-twice", f.with(nil, cbText("att"), f.val["att"]))
	add("att-plus-one", f.with(nil, cbText("att"), cbList(cbMap(cbText("nb"), cbMap(), cbText("can"), cbText("extra/cap"), cbText("with"), cbText("x:extra")))))
	add("nnc-twice", f.with(map[string][]byte{"nnc": cbText("one")}, cbText("nnc"), cbText("two")))
	add("nbf-twice", f.with(map[string][]byte{"nbf": cbInt(5)}, cbText("nbf"), cbInt(6)))
	add("fct-twice", f.with(map[string][]byte{"fct": cbList(cbMap(cbText("k"), cbInt(1)))}, cbText("fct"), cbList(cbMap(cbText("j"), cbInt(2)), cbMap(cbText("i"), cbInt(3)))))
	add("cap-can-twice-other", f.with(map[string][]byte{"att": f.attWith(0, cbMap(cbText("nb"), c0[2], cbText("can"), c0[1], cbText("with"), c0[0], cbText("can"), cbText("other/can")))}))
	add("cap-with-twice-other", f.with(map[string][]byte{"att": f.attWith(0, cbMap(cbText("with"), cbText("x:first"), cbText("nb"), c0[2], cbText("can"), c0[1], cbText("with"), c0[0]))}))
	add("cap-nb-twice-other", f.with(map[string][]byte{"att": f.attWith(0, cbMap(cbText("nb"), cbMap(cbText("max"), cbInt(1)), cbText("can"), c0[1], cbText("with"), c0[0], cbText("nb"), c0[2]))}))

	// --- refused: unknown keys, missing fields
	add("unknown-key-last", f.with(nil, cbText("zzz"), cbInt(1)))
	add("unknown-key-first", cbMap(append([][]byte{cbText("a"), cbInt(1)}, f.entries(f.keys, nil)...)...))
	add("unknown-key-null", f.with(nil, cbText("zzz"), cbNull))
	for _, k := range []string{"v", "iss", "aud", "s", "att", "exp"} {
		add("missing-"+k, f.with(map[string][]byte{k: nil}))
	}
	add("optional-fields-removed", f.with(map[string][]byte{"prf": nil, "fct": nil, "nnc": nil, "nbf": nil}))
	add("empty-map", cbMap())
	add("not-a-map-list", cbList(cbInt(1)))
	add("not-a-map-int", cbInt(1))
	add("not-a-map-null", cbNull)
	add("empty-block", []byte{})
	add("trailing-byte", cat(f.with(nil), []byte{0}))
	add("truncated", f.with(nil)[:len(f.with(nil))-3])
	add("int-key", cbMap(cbInt(1), cbInt(2)))

	// --- kinds
	add("v-bytes", f.with(map[string][]byte{"v": cbBytes([]byte("0.9.1"))}))
	add("v-null", f.with(map[string][]byte{"v": cbNull}))
	add("v-empty", f.with(map[string][]byte{"v": cbText("")}))
	add("iss-text", f.with(map[string][]byte{"iss": cbText("did:key:z6Mk")}))
	add("iss-null", f.with(map[string][]byte{"iss": cbNull}))
	add("iss-empty", f.with(map[string][]byte{"iss": cbBytes(nil)}))
	add("aud-int", f.with(map[string][]byte{"aud": cbInt(3)}))
	add("aud-undecodable", f.with(map[string][]byte{"aud": cbBytes([]byte{0x01, 0x02})}))
	add("aud-did-web", f.with(map[string][]byte{"aud": cbBytes(append([]byte{0x9d, 0x1a}, []byte("web:example.com")...))}))
	add("aud-generic-key", f.with(map[string][]byte{"aud": cbBytes(append([]byte{0x9d, 0x1a}, []byte("key:z6Mkabc")...))}))
	add("aud-one-byte", f.with(map[string][]byte{"aud": cbBytes([]byte{0xed})}))
	add("aud-didcore-only", f.with(map[string][]byte{"aud": cbBytes([]byte{0x9d, 0x1a})}))
	add("s-text", f.with(map[string][]byte{"s": cbText("sig")}))
	add("s-empty", f.with(map[string][]byte{"s": cbBytes(nil)}))
	add("s-unknown-code", f.with(map[string][]byte{"s": cbBytes([]byte{0x01, 0x02, 0x09, 0x09})}))
	add("s-bad-varint", f.with(map[string][]byte{"s": cbBytes([]byte{0xff, 0xff, 0xff, 0xff, 0xff, 0xff, 0xff, 0xff, 0xff, 0xff, 0x01})}))
	add("att-map", f.with(map[string][]byte{"att": cbMap()}))
	add("att-null", f.with(map[string][]byte{"att": cbNull}))
	add("att-empty", f.with(map[string][]byte{"att": cbList()}))
	add("att-elem-int", f.with(map[string][]byte{"att": cbList(cbInt(1))}))
	add("att-elem-null", f.with(map[string][]byte{"att": cbList(cbNull)}))
	add("prf-map", f.with(map[string][]byte{"prf": cbMap()}))
	add("prf-null", f.with(map[string][]byte{"prf": cbNull}))
	add("prf-elem-int", f.with(map[string][]byte{"prf": cbList(cbInt(1))}))
	add("prf-elem-null", f.with(map[string][]byte{"prf": cbList(cbNull)}))
	add("prf-elem-text", f.with(map[string][]byte{"prf": cbList(cbText("bafy"))}))
	add("prf-identity-link", f.with(map[string][]byte{"prf": cbList(cbLinkB([]byte{0x01, 0x55, 0x00, 0x02, 0xaa, 0xbb}))}))
	add("exp-text", f.with(map[string][]byte{"exp": cbText("1")}))
	add("exp-undefined", f.with(map[string][]byte{"exp": cbUndef}))
	add("exp-zero", f.with(map[string][]byte{"exp": cbInt(0)}))
	add("exp-minus-one", f.with(map[string][]byte{"exp": cbNeg(0)}))
	add("exp-2^63-1", f.with(map[string][]byte{"exp": []byte{0x1b, 0x7f, 0xff, 0xff, 0xff, 0xff, 0xff, 0xff, 0xff}}))
	add("exp-2^63", f.with(map[string][]byte{"exp": u63}))
	add("exp-2^64-1", f.with(map[string][]byte{"exp": u64max}))
	add("exp--2^63", f.with(map[string][]byte{"exp": neg63}))
	add("exp--2^64", f.with(map[string][]byte{"exp": negmax}))
	add("exp-non-minimal", f.with(map[string][]byte{"exp": []byte{0x19, 0x00, 0x05}}))
	add("exp-list", f.with(map[string][]byte{"exp": cbList()}))
	add("nbf-null", f.with(map[string][]byte{"nbf": cbNull}))
	add("nbf-zero", f.with(map[string][]byte{"nbf": cbInt(0)}))
	add("nbf-text", f.with(map[string][]byte{"nbf": cbText("0")}))
	add("nbf-2^63", f.with(map[string][]byte{"nbf": u63}))
	add("nbf-2^64-1", f.with(map[string][]byte{"nbf": u64max}))
	add("nbf-negative", f.with(map[string][]byte{"nbf": cbNeg(4)}))
	add("nnc-null", f.with(map[string][]byte{"nnc": cbNull}))
	add("nnc-bytes", f.with(map[string][]byte{"nnc": cbBytes([]byte("n"))}))
	add("nnc-empty", f.with(map[string][]byte{"nnc": cbText("")}))
	add("nnc-bad-utf8", f.with(map[string][]byte{"nnc": cat(cbHead(3, 2), []byte{0xff, 0xfe})}))

	// --- capabilities
	capv := func(kv ...[]byte) []byte { return f.with(map[string][]byte{"att": f.attWith(0, cbMap(kv...))}) }
	add("cap-unknown-key", capv(cbText("nb"), c0[2], cbText("can"), c0[1], cbText("with"), c0[0], cbText("zz"), cbInt(1)))
	add("cap-missing-nb", capv(cbText("can"), c0[1], cbText("with"), c0[0]))
	add("cap-missing-can", capv(cbText("nb"), c0[2], cbText("with"), c0[0]))
	add("cap-missing-with", capv(cbText("nb"), c0[2], cbText("can"), c0[1]))
	add("cap-empty-map", capv())
	add("cap-can-bytes", capv(cbText("nb"), c0[2], cbText("can"), cbBytes([]byte("a/b")), cbText("with"), c0[0]))
	add("cap-with-null", capv(cbText("nb"), c0[2], cbText("can"), c0[1], cbText("with"), cbNull))
	add("cap-can-empty", capv(cbText("nb"), c0[2], cbText("can"), cbText(""), cbText("with"), c0[0]))
	nbv := func(nb []byte) []byte { return capv(cbText("nb"), nb, cbText("can"), c0[1], cbText("with"), c0[0]) }
	lk := cbLinkB([]byte{0x01, 0x71, 0x12, 0x20, 1, 2, 3, 4, 5, 6, 7, 8, 9, 10, 11, 12, 13, 14, 15, 16, 17, 18, 19, 20, 21, 22, 23, 24, 25, 26, 27, 28, 29, 30, 31, 32})
	add("nb-null", nbv(cbNull))
	add("nb-undefined", nbv(cbUndef))
	add("nb-int", nbv(cbInt(1)))
	add("nb-text", nbv(cbText("x")))
	add("nb-bytes", nbv(cbBytes([]byte{1})))
	add("nb-bool", nbv(cbTrue))
	add("nb-list", nbv(cbList(cbInt(1))))
	add("nb-link", nbv(lk))
	add("nb-empty-map", nbv(cbMap()))
	add("nb-nested-null", nbv(cbMap(cbText("orig"), cbNull)))
	add("nb-dup-key", nbv(cbMap(cbText("a"), cbInt(1), cbText("a"), cbInt(2))))
	add("nb-dup-key-deep", nbv(cbMap(cbText("m"), cbMap(cbText("a"), cbInt(1), cbText("a"), cbInt(1)))))
	add("nb-dup-key-in-list", nbv(cbList(cbMap(cbText("a"), cbInt(1), cbText("a"), cbInt(1)))))
	add("nb-every-kind", nbv(cbMap(cbText("link"), lk, cbText("max"), cbInt(9), cbText("tag"), cbText("t"), cbText("tags"), cbList(cbText("a"), cbText("b")),
		cbText("hdr"), cbMap(cbText("k"), cbText("v")), cbText("orig"), cbNull, cbText("b"), cbTrue, cbText("y"), cbBytes([]byte{7}))))
	add("nb-mixed-list", nbv(cbMap(cbText("tags"), cbList(cbText("a"), cbInt(1)))))
	add("nb-mixed-map", nbv(cbMap(cbText("hdr"), cbMap(cbText("k"), cbInt(1)))))
	add("nb-unsorted-keys", nbv(cbMap(cbText("tag"), cbText("t"), cbText("max"), cbInt(9))))
	add("nb-big-uint", nbv(cbMap(cbText("max"), u64max)))
	add("nb-negative", nbv(cbMap(cbText("max"), cbNeg(41))))
	add("nb-indefinite", nbv(cbMapIndef(cbText("max"), cbInt(3))))

	// --- facts
	fv := func(fcts []byte) []byte { return f.with(map[string][]byte{"fct": fcts}) }
	add("fct-ok", fv(cbList(cbMap(cbText("k"), cbInt(1)))))
	add("fct-empty-list", fv(cbList()))
	add("fct-value-null", fv(cbList(cbMap(cbText("k"), cbNull))))
	add("fct-nested-null", fv(cbList(cbMap(cbText("k"), cbMap(cbText("n"), cbNull)))))
	add("fct-dup-key", fv(cbList(cbMap(cbText("k"), cbInt(1), cbText("k"), cbInt(2)))))
	add("fct-value-dup-key", fv(cbList(cbMap(cbText("k"), cbMap(cbText("a"), cbInt(1), cbText("a"), cbInt(1))))))
	add("fct-elem-int", fv(cbList(cbInt(1))))
	add("fct-map", fv(cbMap()))
	add("fct-null", fv(cbNull))
	return vs
}

// tvBlockWorlds issues a few real tokens, writes the variants of each and records them as
// extra "worlds" of the token-view check (one per base token).  Returns "world/link" -> label and the records.
func tvBlockWorlds(seed int64) (map[string]string, []*tvResult) {
	labels := map[string]string{}
	var results []*tvResult
	cast := newCast(seed*7919 + 17)
	alice, bob := cast.Ed("alice"), cast.Ed("bob")
	rsa := cast.RSA("rsa0", 0)
	web := cast.Wrapped("web", "did:web:blocks.example", alice)
	now := int(ucan.Now())
	exp := now + 1000
	lnk := fakeLink(31337)

	type baseSpec struct {
		name string
		sp   *TokSpec
		fct  bool
	}
	bases := []baseSpec{
		{"ed-plain", &TokSpec{Name: "b0", Issuer: alice, Audience: bob, Exp: &exp,
			Caps: []CapSpec{{Can: "store/add", With: alice.DID.String(), Nb: Cav{}}}}, false},
		{"rsa-options", &TokSpec{Name: "b1", Issuer: rsa, Audience: alice, Exp: nil, Nbf: now - 10, Nonce: "n-1", Dangling: 2,
			Caps: []CapSpec{{Can: "store/*", With: rsa.DID.String(), Nb: Cav{Max: i64(5)}}, {Can: "upload/add", With: "ucan:*", Nb: Cav{}}}}, true},
		{"web-caveats", &TokSpec{Name: "b2", Issuer: web, Audience: rsa, Exp: &exp,
			Caps: []CapSpec{{Can: "space/blob/add", With: "did:web:blocks.example",
				Nb: Cav{Link: lnk, Max: i64(-3), Tag: strp("t"), Tags: []string{"a", "b"}, Hdr: map[string]string{"k": "v", "kk": "w"}, OrigNull: true}}}}, false},
	}
	for bi, bs := range bases {
		w0 := &World{ID: 900000 + bi*1000, Kind: "blocks", Cast: cast, Can: "store/add", Inv: bs.sp.Name, Specs: []*TokSpec{bs.sp}}
		if err := w0.Build(); err != nil {
			panic(err)
		}
		d0 := w0.built[bs.sp.Name].Dlg
		m := *d0.Data().Model()
		if bs.fct {
			// facts cannot be set through the world's specs: add them to the field table only (the signature then fails, as for most variants)
			nd, _ := qp.BuildMap(basicnode.Prototype.Any, 1, func(ma datamodel.MapAssembler) { qp.MapEntry(ma, "hello", qp.String("world")) })
			m.Fct = []udm.FactModel{{Keys: []string{"hello"}, Values: map[string]datamodel.Node{"hello": nd}}}
		}
		f := tvFieldsOf(&m)
		if !bs.fct {
			if got := f.with(nil); string(got) != string(d0.Root().Bytes()) {
				panic(fmt.Sprintf("tokenview blocks: hand encoding of %s differs from the library's:\n%x\n%x", bs.name, got, d0.Root().Bytes()))
			}
		}
		w := &World{ID: 900000 + bi*1000, Kind: "blocks", Cast: cast, Can: "store/add"}
		w.built = map[string]*Built{}
		w.linkID = map[string]int{}
		for vi, v := range tvVariants(f) {
			blk := bytesMkBlock(v.data, "dagcbor-sha256")
			br, _ := blockstore.NewBlockReader(blockstore.WithBlocks([]ipld.Block{blk}))
			d, err := delegation.NewDelegation(blk, br)
			if err != nil {
				panic(err)
			}
			name := fmt.Sprintf("v%03d", vi)
			// Signer is filled in by tokenViewHook from the observation (there is no construction knowledge here)
			w.built[name] = &Built{Spec: &TokSpec{Name: name}, Dlg: d, Signer: -1}
			w.order = append(w.order, name)
			labels[fmt.Sprintf("%d/%d", w.ID, w.lid(d.Link()))] = bs.name + ":" + v.label
		}
		results = append(results, tvFinish(tvSnapshot(w, true)))
	}
	return labels, results
}
