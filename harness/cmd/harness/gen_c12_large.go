package main

// gen_c12_large.go — C12 on LARGE archives ("sizes 0..many"): a real agent message followed by big blocks laid out so
// that a section ends exactly on every multiple of 1 MiB up to 9 MiB, and the same archive shifted by a few bytes.
// Too big for the Coq case files; a direct oracle: car.Decode, request.Decode and response.Decode deliver exactly the
// blocks that were encoded (no size at which a reader silently stops), and a cut on a section boundary of such an
// archive delivers exactly the blocks before the cut.

import (
	"bytes"
	"crypto/sha256"
	"encoding/hex"
	"fmt"
	"math/rand"

	"github.com/ipfs/go-cid"
	mh "github.com/multiformats/go-multihash"
	"github.com/storacha/go-ucanto/core/car"
	"github.com/storacha/go-ucanto/core/ipld"
	"github.com/storacha/go-ucanto/transport/car/request"
	"github.com/storacha/go-ucanto/transport/car/response"
	uhttp "github.com/storacha/go-ucanto/transport/http"
)

func c12LargeArchives(r *rand.Rand, st *c12Stats) error {
	const MiB = 1 << 20
	for _, shift := range []int{0, 7} {
		a, err := c12Message(r)
		if err != nil {
			return err
		}
		mk := func(data []byte) c12Blk {
			sum := sha256.Sum256(data)
			d, _ := mh.Encode(sum[:], mh.SHA2_256)
			return c12Blk{cid.NewCidV1(cid.Raw, d).Bytes(), data, "large"}
		}
		cur := len(a.bytes)
		if shift > 0 {
			// a small block first, and targets 13 bytes past the MiB multiples: no boundary of this archive is aligned
			pad := make([]byte, shift)
			r.Read(pad)
			a.blocks = append(a.blocks, mk(pad))
			cur += 1 + 36 + shift
		}
		for target := MiB; target <= 9*MiB; target += MiB {
			// section = uvarint(36+L) ++ cid(36) ++ data(L); for these sizes the varint takes 3 octets
			end := target
			if shift > 0 {
				end += 13
			}
			L := end - cur - 36 - 3
			if L < 1<<14 {
				continue
			}
			data := make([]byte, L)
			r.Read(data)
			a.blocks = append(a.blocks, mk(data))
			cur = end
		}
		full, err := c12Encode(a.roots, a.blocks)
		if err != nil {
			return err
		}
		if len(full) != cur {
			return fmt.Errorf("large archive: layout computed %d bytes, encoder wrote %d", cur, len(full))
		}
		st.LargeArchives++
		st.LargeBytes += len(full)
		direct := func(kind, detail string) {
			if len(st.Direct) < 200 {
				h := sha256.Sum256(full)
				st.Direct = append(st.Direct, c12Direct{kind, "large-archive", "sha256:" + hex.EncodeToString(h[:]) + fmt.Sprintf(" (%d bytes, %d blocks, section ends on MiB multiples shifted by %d)", len(full), len(a.blocks), shift), detail, ""})
			}
		}
		want := len(a.blocks)
		count := func(it func(func(ipld.Block, error) bool)) (n int, firstErr error) {
			for b, err := range it {
				if err != nil {
					return n, err
				}
				if k := n; k < want && !bytes.Equal([]byte(b.Link().Binary()), a.blocks[k].cid) {
					return n, fmt.Errorf("block %d is not the one that was encoded", k)
				}
				n++
			}
			return n, nil
		}
		if p := recovered(func() {
			_, blocks, err := car.Decode(bytes.NewReader(full))
			if err != nil {
				direct("large-archive", "car.Decode refuses a well-formed archive: "+err.Error())
				return
			}
			if n, err := count(blocks); err != nil || n != want {
				direct("large-archive", fmt.Sprintf("car.Decode delivered %d of %d blocks (error: %v)", n, want, err))
			}
		}); p != nil {
			direct("large-archive", fmt.Sprintf("car.Decode panicked: %v", p))
		}
		for _, useResp := range []bool{false, true} {
			name := "request.Decode"
			if useResp {
				name = "response.Decode"
			}
			if p := recovered(func() {
				var blocks func(func(ipld.Block, error) bool)
				if useResp {
					m, err := response.Decode(uhttp.NewHTTPResponse(200, bytes.NewReader(full), nil))
					if err != nil {
						direct("large-archive", name+" refuses a well-formed message: "+err.Error())
						return
					}
					blocks = m.Blocks()
				} else {
					m, err := request.Decode(uhttp.NewHTTPRequest(bytes.NewReader(full), nil))
					if err != nil {
						direct("large-archive", name+" refuses a well-formed message: "+err.Error())
						return
					}
					blocks = m.Blocks()
				}
				if n, err := count(blocks); err != nil || n != want {
					direct("large-archive", fmt.Sprintf("%s delivered %d of %d blocks (error: %v)", name, n, want, err))
				}
			}); p != nil {
				direct("large-archive", fmt.Sprintf("%s panicked: %v", name, p))
			}
		}
	}
	return nil
}
