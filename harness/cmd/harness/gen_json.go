package main

// gen_json.go — JSON: correspondence of coq/DagJson.v (dag-json encoder, CID / DID strings,
// UTF-8 validity, base64 / base32 / base58) with the implementation:
//   nodes : ipld.Encode(n, dagjson.Encode)   vs json_encode_opt, and the harness's own
//           "valid UTF-8 everywhere, no reserved slash shape" verdict vs json_safe
//   cids  : cid.String()                      vs cid_string
//   dids  : did.Decode(b).String()            vs did_string / did_okb
//   strs  : utf8.ValidString, base64 Raw{Std,URL}, multibase base32 / base58btc
// The token level (formatter.FormatSignPayload vs sign_payload) lives in gen_c07.go.

import (
	"encoding/base64"
	"encoding/hex"
	"fmt"
	"math"
	"math/rand"
	"strings"
	"unicode/utf8"

	"github.com/ipfs/go-cid"
	ipldprime "github.com/ipld/go-ipld-prime"
	"github.com/ipld/go-ipld-prime/codec/dagjson"
	"github.com/ipld/go-ipld-prime/datamodel"
	cidlink "github.com/ipld/go-ipld-prime/linking/cid"
	"github.com/ipld/go-ipld-prime/node/basicnode"
	mbase "github.com/multiformats/go-multibase"
	mh "github.com/multiformats/go-multihash"
	"github.com/storacha/go-ucanto/did"
)

// strings the JSON string escaper treats specially
var nastyStrings = []string{"", "/", "//", "bytes", "\"", "\\", "\\\"", "a\"b\\c", "\n", "\r", "\t", "\x00", "\x01", "\x08", "\x0b", "\x0c", "\x1f", "\x20", "\x7f",
	"\u2028", "\u2029", "a\u2028b\u2029c", "\u2027", "\u202a", "\ufffd", "\ufffe", "\uffff", "\u0080", "\u07ff", "\u0800", "\ud7ff", "\ue000", "\U00010000", "\U0010ffff",
	"\xff", "\xfe", "\x80", "\xbf", "\xc0\x80", "\xc1\xbf", "\xc2", "\xc2\x41", "\xe0\x80\x80", "\xe0\x9f\xbf", "\xe0\xa0", "\xe2\x80", "\xe2\x80\x41", "\xe2\x80\xa8\xe2\x80",
	"\xed\xa0\x80", "\xed\xbf\xbf", "\xed\x9f\xbf", "\xf0\x80\x80\x80", "\xf0\x8f\xbf\xbf", "\xf0\x90\x80\x80", "\xf4\x8f\xbf\xbf", "\xf4\x90\x80\x80", "\xf5\x80\x80\x80", "\xf8\x88\x80\x80\x80",
	"a\xffb", "a\xfeb", "\xff\xfe", "é\xffü", "\xe2\x80\xa8\xff", "\\u0000", "\\ufffd", "</script>", "<>&", "é", "日本語", "😀", "{\"/\":\"x\"}"}

func nastyString(r *rand.Rand) string {
	switch r.Intn(4) {
	case 0, 1:
		return nastyStrings[r.Intn(len(nastyStrings))]
	case 2: // concatenation of nasty pieces
		var sb strings.Builder
		for k := 1 + r.Intn(4); k > 0; k-- {
			sb.WriteString(nastyStrings[r.Intn(len(nastyStrings))])
		}
		return sb.String()
	default: // random bytes biased towards UTF-8 lead / continuation bytes and ASCII control characters
		n := r.Intn(12)
		b := make([]byte, n)
		pool := []byte{0x00, 0x09, 0x0a, 0x1f, 0x22, 0x5c, 0x2f, 0x41, 0x7f, 0x80, 0x8f, 0x90, 0x9f, 0xa0, 0xa8, 0xa9, 0xbf, 0xc0, 0xc1, 0xc2, 0xdf, 0xe0, 0xe1, 0xe2, 0xec, 0xed, 0xee, 0xef, 0xf0, 0xf1, 0xf3, 0xf4, 0xf5, 0xff}
		for i := range b {
			b[i] = pool[r.Intn(len(pool))]
		}
		return string(b)
	}
}

func extraCid(r *rand.Rand) cid.Cid {
	switch r.Intn(8) {
	case 0: // identity multihash, tiny digests
		h, _ := mh.Encode(randBytes(r, r.Intn(6)), mh.IDENTITY)
		return cid.NewCidV1(0x55, h)
	case 1: // fabricated multihash with another hash code (no hashing needed for the string form)
		codes := []uint64{mh.SHA3_256, mh.BLAKE2B_MIN + 31, mh.SHA2_512, mh.SHA1, 0xb220, 0x1e}
		c := codes[r.Intn(len(codes))]
		h, _ := mh.Encode(randBytes(r, []int{20, 32, 64}[r.Intn(3)]), c)
		return cid.NewCidV1([]uint64{0x55, 0x70, 0x71, 0x0129, 0x0202, 0x300539}[r.Intn(6)], h)
	case 2: // CIDv1 whose bytes look like a CIDv0 prefix is impossible (starts with 0x01); v1 dag-pb sha2-256
		h, _ := mh.Sum(randBytes(r, 8), mh.SHA2_256, -1)
		return cid.NewCidV1(0x70, h)
	case 3: // CIDv0 with leading zero digest bytes
		d := randBytes(r, 32)
		d[0], d[1] = 0, 0
		h, _ := mh.Encode(d, mh.SHA2_256)
		return cid.NewCidV0(h)
	case 4: // all-zero / all-ones digests
		d := make([]byte, 32)
		if r.Intn(2) == 0 {
			for i := range d {
				d[i] = 0xff
			}
		}
		h, _ := mh.Encode(d, mh.SHA2_256)
		if r.Intn(2) == 0 {
			return cid.NewCidV0(h)
		}
		return cid.NewCidV1(0x71, h)
	default:
		return randCid(r, newCborStats())
	}
}

// nastyNode: values aimed at the special cases of the dag-json encoder
func nastyNode(r *rand.Rand, d int, st *cborStats) datamodel.Node {
	k := r.Intn(14)
	if d <= 0 && k >= 9 {
		k = r.Intn(9)
	}
	switch k {
	case 0:
		return basicnode.NewString(nastyString(r))
	case 1:
		return basicnode.NewInt([]int64{0, -1, 1, 9, 10, -10, 99, 100, math.MaxInt64, math.MinInt64, math.MaxInt64 - 1, 1 << 53, -(1 << 53), 1e15, 123456789012345678}[r.Intn(15)])
	case 2:
		return basicnode.NewUint([]uint64{0, 1, math.MaxInt64, 1 << 63, math.MaxUint64}[r.Intn(5)])
	case 3:
		return basicnode.NewBytes(randBytes(r, []int{0, 1, 2, 3, 4, 5, 6, 31, 32, 33, 1000}[r.Intn(11)]))
	case 4:
		return basicnode.NewLink(cidlink.Link{Cid: extraCid(r)})
	case 5:
		return []datamodel.Node{datamodel.Null, basicnode.NewBool(true), basicnode.NewBool(false)}[r.Intn(3)]
	case 6:
		return basicnode.NewFloat([]float64{0, 1, -1, 1.5, 1e21, 1e-7, 123456789, float64(1 << 53)}[r.Intn(8)])
	case 7: // reserved shapes and near misses
		bld := func(key string, v datamodel.Node, extra bool) datamodel.Node {
			nb := basicnode.Prototype.Map.NewBuilder()
			ma, _ := nb.BeginMap(2)
			ma.AssembleKey().AssignString(key)
			ma.AssembleValue().AssignNode(v)
			if extra {
				ma.AssembleKey().AssignString("x")
				ma.AssembleValue().AssignNode(basicnode.NewInt(1))
			}
			ma.Finish()
			return nb.Build()
		}
		switch r.Intn(8) {
		case 0:
			return bld("/", basicnode.NewString(extraCid(r).String()), false)
		case 1:
			return bld("/", bld("bytes", basicnode.NewString(base64.RawStdEncoding.EncodeToString(randBytes(r, r.Intn(6)))), false), false)
		case 2:
			return bld("/", basicnode.NewString("not a cid"), false)
		case 3:
			return bld("/", basicnode.NewInt(1), false)
		case 4:
			return bld("/", basicnode.NewString("x"), true)
		case 5:
			return bld("/", bld("bytes", basicnode.NewInt(1), false), false)
		case 6:
			return bld("/", bld("bytes", basicnode.NewString("AQID"), true), false)
		default:
			return bld("/", bld("Bytes", basicnode.NewString("AQID"), false), false)
		}
	case 8:
		return basicnode.NewString(randString(r, st))
	case 9, 10:
		n := r.Intn(4)
		nb := basicnode.Prototype.List.NewBuilder()
		la, _ := nb.BeginList(int64(n))
		for i := 0; i < n; i++ {
			la.AssembleValue().AssignNode(nastyNode(r, d-1, st))
		}
		la.Finish()
		return nb.Build()
	default:
		n := r.Intn(5)
		seen := map[string]bool{}
		nb := basicnode.Prototype.Map.NewBuilder()
		ma, _ := nb.BeginMap(int64(n))
		for i := 0; i < n; i++ {
			key := nastyString(r)
			if r.Intn(3) == 0 {
				key = keyPool[r.Intn(len(keyPool))]
			}
			if seen[key] {
				continue
			}
			seen[key] = true
			ma.AssembleKey().AssignString(key)
			ma.AssembleValue().AssignNode(nastyNode(r, d-1, st))
		}
		ma.Finish()
		return nb.Build()
	}
}

// the harness's own rendering of json_safe: every string / key valid UTF-8 (utf8.ValidString), no map of
// the shape {"/": string} or {"/": {"bytes": string}}
func goJSONSafe(n datamodel.Node) bool {
	switch n.Kind() {
	case datamodel.Kind_String:
		s, _ := n.AsString()
		return utf8.ValidString(s)
	case datamodel.Kind_List:
		for it := n.ListIterator(); !it.Done(); {
			_, v, _ := it.Next()
			if !goJSONSafe(v) {
				return false
			}
		}
	case datamodel.Kind_Map:
		if n.Length() == 1 {
			if v, err := n.LookupByString("/"); err == nil {
				if v.Kind() == datamodel.Kind_String {
					return false
				}
				if v.Kind() == datamodel.Kind_Map && v.Length() == 1 {
					if b, err := v.LookupByString("bytes"); err == nil && b.Kind() == datamodel.Kind_String {
						return false
					}
				}
			}
		}
		for it := n.MapIterator(); !it.Done(); {
			k, v, _ := it.Next()
			ks, _ := k.AsString()
			if !utf8.ValidString(ks) || !goJSONSafe(v) {
				return false
			}
		}
	}
	return true
}

func dagjsonEncode(n datamodel.Node) (b []byte, err error) {
	defer func() {
		if p := recover(); p != nil {
			err = fmt.Errorf("panic: %v", p)
		}
	}()
	return ipldprime.Encode(n, dagjson.Encode)
}

// internPk is internHex with the constants written as packed primitive integers (Check_CBOR.pk): Coq 8.16
// interprets string literals slowly, and the case files of the signing payload are mostly hex constants
func internPk(body string) (defs string, out string) {
	names := map[string]string{}
	var sb strings.Builder
	out = hxRe.ReplaceAllStringFunc(body, func(m string) string {
		h := hxRe.FindStringSubmatch(m)[1]
		if n, ok := names[h]; ok {
			return n
		}
		n := fmt.Sprintf("s_%d", len(names))
		names[h] = n
		raw, _ := hex.DecodeString(h)
		fmt.Fprintf(&sb, "Definition %s : bstr := Eval vm_compute in %s.\n", n, pk(raw))
		return n
	})
	return sb.String(), out
}

const jsonCaseHeader = "From Coq Require Import Uint63.\nFrom Ucanto Require Import Base Ipld Cbor Check_CBOR Formats DagJson Signing Check_Json.\nOpen Scope N_scope.\n"

// writeShards writes case files cases_<tag>_<kind>_NN.v evaluating `fn cases`
func writeShards(dir, tag, kind, typ, fn string, cases []string, shards int) error {
	if len(cases) == 0 {
		return nil
	}
	per := (len(cases) + shards - 1) / shards
	for k := 0; k*per < len(cases); k++ {
		hi := (k + 1) * per
		if hi > len(cases) {
			hi = len(cases)
		}
		var sb strings.Builder
		sb.WriteString(jsonCaseHeader)
		defs, body := internPk(coqList(cases[k*per : hi]))
		sb.WriteString(defs)
		fmt.Fprintf(&sb, "Definition cases : list %s := %s.\n", typ, body)
		fmt.Fprintf(&sb, "Definition M := Eval vm_compute in %s cases.\nPrint M.\n", fn)
		if err := writeFile(dir, fmt.Sprintf("cases_%s_%s_%02d.v", tag, kind, k), sb.String()); err != nil {
			return err
		}
	}
	return nil
}

func didCase(id int, b []byte) string {
	d, err := did.Decode(b)
	return fmt.Sprintf("(%d, %s, %s, %s)", id, hx(b), hxs(d.String()), coqBool(err == nil))
}

func strCase(id int, s []byte) string {
	b32, _ := mbase.Encode(mbase.Base32, s)
	b58, _ := mbase.Encode(mbase.Base58BTC, s)
	return fmt.Sprintf("(%d, %s, %s, %s, %s, %s, %s)", id, hx(s), coqBool(utf8.Valid(s)),
		hxs(base64.RawStdEncoding.EncodeToString(s)), hxs(base64.RawURLEncoding.EncodeToString(s)), hxs(b32[1:]), hxs(b58[1:]))
}

func init() {
	gens["JSON"] = func(o genOpts) error {
		nrand, nnasty, nstr, ncid, shards := 300, 500, 400, 200, 8
		if o.tier == "thorough" {
			nrand, nnasty, nstr, ncid, shards = 8000, 12000, 6000, 3000, 32
		}
		r := rand.New(rand.NewSource(o.seed*7919 + 13))
		st := newCborStats()
		var nodeCases, cidCases, didCases, strCases []string
		var goProblems []string
		var samples []any
		floats, encErrs, unsafe, decRoundtripFail := 0, 0, 0, 0
		integralFloat := 0
		var decSamples []string
		for i := 0; i < nrand+nnasty; i++ {
			var n datamodel.Node
			if i < nrand {
				n, _ = randNode(r, r.Intn(4), st)
			} else {
				n = nastyNode(r, r.Intn(4), st)
			}
			b, err := dagjsonEncode(n)
			if err != nil && strings.HasPrefix(err.Error(), "panic") {
				goProblems = append(goProblems, fmt.Sprintf("node #%d: dagjson.Encode panics: %v", i, err))
				continue
			}
			if nodeHasFloat(n) {
				floats++
				if n.Kind() == datamodel.Kind_Float && err == nil {
					f, _ := n.AsFloat()
					if f == math.Trunc(f) && math.Abs(f) < 1<<53 {
						if ib, _ := dagjsonEncode(basicnode.NewInt(int64(f))); string(ib) == string(b) {
							integralFloat++
						}
					}
				}
				continue // floats are outside the model
			}
			if err != nil {
				encErrs++
			}
			safe := goJSONSafe(n)
			if !safe {
				unsafe++
			}
			// the real decoder reads a safe value back (evidence that json_safe is the right domain)
			if err == nil && safe {
				if n2, derr := ipldprime.Decode(b, dagjson.Decode); derr != nil || ipldToCoq(canonNode(n2)) != ipldToCoq(canonNode(n)) {
					decRoundtripFail++
					if len(decSamples) < 5 {
						decSamples = append(decSamples, fmt.Sprintf("%s (%v)", string(b), derr))
					}
				}
			}
			nodeCases = append(nodeCases, fmt.Sprintf("(%d, %s, %s, %s)", i, ipldToCoq(n), coqOptBytes(b, err == nil), coqBool(safe)))
			if len(samples) < 6 && err == nil && len(b) < 100 && n.Kind() == datamodel.Kind_Map && n.Length() > 1 {
				samples = append(samples, map[string]any{"node": ipldToCoq(n), "dagjson": string(b), "json_safe": safe})
			}
		}
		for i := 0; i < ncid; i++ {
			c := extraCid(r)
			cidCases = append(cidCases, fmt.Sprintf("(%d, %s, %s)", i, hx(c.Bytes()), hxs(c.String())))
		}
		// DIDs: key DIDs, generic ones (with and without invalid UTF-8), undecodable byte strings
		cast := newCast(o.seed * 17)
		var didBytes [][]byte
		for _, p := range []*Prin{cast.Ed("a"), cast.Ed("b"), cast.Ed("c"), cast.RSA("r0", 0), cast.RSA("r1", 1)} {
			didBytes = append(didBytes, p.DID.Bytes())
		}
		for _, s := range []string{"did:web:example.com", "did:web:a.b:c", "did:", "did:k", "did:key", "did:keyz", "did:mailto:web.mail:alice", "did:dns:x"} {
			if d, err := did.Parse(s); err == nil {
				didBytes = append(didBytes, d.Bytes())
			}
		}
		didBytes = append(didBytes, nil, []byte{}, []byte{0x9d}, []byte{0x9d, 0x1a}, []byte{0x9d, 0x1a, 'k', 'e', 'y', ':', 'z', 'Q'}, []byte{0xed}, []byte{0xed, 0x01},
			[]byte{0x85, 0x24}, []byte{0x85, 0x24, 1, 2, 3}, []byte{0x00}, []byte{0x01, 0x71}, []byte{0xed, 0x01, 0, 0, 0, 0}, []byte{0xff, 0xff, 0xff, 0xff, 0xff, 0xff, 0xff, 0xff, 0xff, 0xff, 0x01})
		for i := 0; i < nstr/4; i++ {
			switch r.Intn(4) {
			case 0:
				didBytes = append(didBytes, append([]byte{0x9d, 0x1a}, []byte("web:"+nastyString(r))...))
			case 1:
				didBytes = append(didBytes, append([]byte{0xed, 0x01}, randBytes(r, []int{0, 1, 31, 32, 33}[r.Intn(5)])...))
			case 2:
				didBytes = append(didBytes, append([]byte{0x85, 0x24}, randBytes(r, r.Intn(300))...))
			default:
				didBytes = append(didBytes, randBytes(r, r.Intn(8)))
			}
		}
		for i, b := range didBytes {
			didCases = append(didCases, didCase(i, b))
		}
		for i := 0; i < nstr; i++ {
			var s []byte
			switch r.Intn(5) {
			case 0, 1:
				s = []byte(nastyString(r))
			case 2:
				s = []byte(randString(r, st))
			case 3: // leading zero bytes (base58)
				s = append(make([]byte, r.Intn(4)), randBytes(r, r.Intn(6))...)
			default:
				s = randBytes(r, randLen(r))
			}
			strCases = append(strCases, strCase(i, s))
		}
		if err := writeShards(o.out, "JSON", "nodes", "(N * ipld * option bstr * bool)", "check_nodes", nodeCases, shards); err != nil {
			return err
		}
		if err := writeShards(o.out, "JSON", "cids", "(N * bstr * bstr)", "check_cids", cidCases, 2); err != nil {
			return err
		}
		if err := writeShards(o.out, "JSON", "dids", "(N * bstr * bstr * bool)", "check_dids", didCases, 4); err != nil {
			return err
		}
		if err := writeShards(o.out, "JSON", "strs", "(N * bstr * bool * bstr * bstr * bstr * bstr)", "check_strs", strCases, 2); err != nil {
			return err
		}
		return writeJSON(o.out, "stats_json.json", map[string]any{"nodes": len(nodeCases), "cids": len(cidCases), "dids": len(didCases), "strs": len(strCases),
			"nodes_with_floats_skipped": floats, "integral_floats_printing_like_the_int": integralFloat, "encode_errors": encErrs, "nodes_not_json_safe": unsafe,
			"safe_nodes_not_read_back_by_dagjson_decode": decRoundtripFail, "decode_samples": decSamples,
			"go_problems": goProblems, "samples": samples, "value_kinds": st})
	}
}

// canonNode rebuilds a node with every map's entries in byte-wise key order (for comparing values
// independently of the iteration order of the builder / decoder)
func canonNode(n datamodel.Node) datamodel.Node {
	switch n.Kind() {
	case datamodel.Kind_List:
		nb := basicnode.Prototype.List.NewBuilder()
		la, _ := nb.BeginList(n.Length())
		for it := n.ListIterator(); !it.Done(); {
			_, v, _ := it.Next()
			la.AssembleValue().AssignNode(canonNode(v))
		}
		la.Finish()
		return nb.Build()
	case datamodel.Kind_Map:
		type kv struct {
			k string
			v datamodel.Node
		}
		var es []kv
		for it := n.MapIterator(); !it.Done(); {
			k, v, _ := it.Next()
			ks, _ := k.AsString()
			es = append(es, kv{ks, canonNode(v)})
		}
		sortSlice(es, func(a, b kv) bool { return a.k < b.k })
		nb := basicnode.Prototype.Map.NewBuilder()
		ma, _ := nb.BeginMap(int64(len(es)))
		for _, e := range es {
			ma.AssembleKey().AssignString(e.k)
			ma.AssembleValue().AssignNode(e.v)
		}
		ma.Finish()
		return nb.Build()
	}
	return n
}

func sortSlice[T any](s []T, less func(a, b T) bool) {
	for i := 1; i < len(s); i++ {
		for j := i; j > 0 && less(s[j], s[j-1]); j-- {
			s[j], s[j-1] = s[j-1], s[j]
		}
	}
}
