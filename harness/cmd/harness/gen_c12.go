package main

// C12: CAR decoding delivers only blocks whose bytes match their CID.
//
// The generator builds random small archives with the repository's car.Encode,
// mutates them (every truncation point, single-byte flips, section splices,
// zero-length sections, over-long / non-minimal length prefixes, trailing
// garbage, other header versions, ...) and records what car.Decode returns for
// a consumer that never stops.  Every case is written as a Gallina term for
// coq/Check_C12.v together with
//   - the answers of go-multihash for the sections an (independent, third-party
//     only) reference walk of the archive finds, and
//   - go-ipld-cbor's verdict on header bytes that are not canonical.
// The model must predict the observation exactly.

import (
	"github.com/storacha/go-ucanto/core/dag/blockstore"
	"bufio"
	"bytes"
	"crypto/ed25519"
	"encoding/binary"
	"encoding/hex"
	"encoding/json"
	"errors"
	"fmt"
	"io"
	"iter"
	"math/big"
	"math/rand"
	"os"
	"path/filepath"
	"sort"
	"strings"
	"time"

	"github.com/ipfs/go-cid"
	cbor "github.com/ipfs/go-ipld-cbor"
	ipldcar "github.com/ipld/go-car"
	"github.com/ipld/go-car/util"
	cidlink "github.com/ipld/go-ipld-prime/linking/cid"
	mh "github.com/multiformats/go-multihash"
	"github.com/storacha/go-ucanto/core/car"
	"github.com/storacha/go-ucanto/core/delegation"
	"github.com/storacha/go-ucanto/core/invocation"
	"github.com/storacha/go-ucanto/core/ipld"
	"github.com/storacha/go-ucanto/core/ipld/block"
	"github.com/storacha/go-ucanto/core/message"
	"github.com/storacha/go-ucanto/principal"
	edsigner "github.com/storacha/go-ucanto/principal/ed25519/signer"
	"github.com/storacha/go-ucanto/transport/car/request"
	"github.com/storacha/go-ucanto/transport/car/response"
	uhttp "github.com/storacha/go-ucanto/transport/http"
	"github.com/storacha/go-ucanto/ucan"
)

// ---------------------------------------------------------------------------
// blocks and archives

type c12Blk struct {
	cid  []byte
	data []byte
	kind string
}

var c12Kinds = []struct {
	name    string
	weight  int
	version int
	codec   uint64
	code    uint64
	length  int
}{
	{"v1-dagcbor-sha256", 5, 1, 0x71, mh.SHA2_256, -1},
	{"v1-raw-sha256", 4, 1, 0x55, mh.SHA2_256, -1},
	{"v1-raw-identity", 4, 1, 0x55, mh.IDENTITY, -1},
	{"v0-sha256", 3, 0, 0x70, mh.SHA2_256, -1},
	{"v1-raw-sha512", 2, 1, 0x55, mh.SHA2_512, -1},
	{"v1-raw-sha256-trunc20", 1, 1, 0x55, mh.SHA2_256, 20},
	{"v1-raw-blake2b256", 1, 1, 0x55, 0xb220, -1},
	{"v1-raw-sha1", 1, 1, 0x55, mh.SHA1, -1},
	{"v1-car-codec-sha256", 1, 1, 0x0202, mh.SHA2_256, -1},
	{"v1-raw-sha3-256", 1, 1, 0x55, mh.SHA3_256, -1},
}

func c12MkBlock(r *rand.Rand, maxData int) c12Blk {
	tot := 0
	for _, k := range c12Kinds {
		tot += k.weight
	}
	x := r.Intn(tot)
	ki := 0
	for i, k := range c12Kinds {
		if x < k.weight {
			ki = i
			break
		}
		x -= k.weight
	}
	k := c12Kinds[ki]
	n := 0
	switch r.Intn(6) {
	case 0:
		n = 0
	case 1:
		n = 1 + r.Intn(3)
	default:
		n = r.Intn(maxData + 1)
	}
	data := make([]byte, n)
	r.Read(data)
	h, err := mh.Sum(data, k.code, k.length)
	if err != nil {
		panic(fmt.Sprintf("mh.Sum %s: %v", k.name, err))
	}
	var c cid.Cid
	if k.version == 0 {
		c = cid.NewCidV0(h)
	} else {
		c = cid.NewCidV1(k.codec, h)
	}
	return c12Blk{c.Bytes(), data, k.name}
}

func c12Link(c []byte) ipld.Link {
	_, cc, err := cid.CidFromBytes(c)
	if err != nil {
		panic(err)
	}
	return cidlink.Link{Cid: cc}
}

func c12Encode(roots [][]byte, blocks []c12Blk) ([]byte, error) {
	var links []ipld.Link
	for _, r := range roots {
		links = append(links, c12Link(r))
	}
	rd := car.Encode(links, func(yield func(ipld.Block, error) bool) {
		for _, b := range blocks {
			if !yield(block.NewBlock(c12Link(b.cid), b.data), nil) {
				return
			}
		}
	})
	return io.ReadAll(rd)
}

// ---------------------------------------------------------------------------
// observation of car.Decode

type c12Item struct {
	ok   bool
	cid  []byte
	data []byte
}

type c12Obs struct {
	panicked string
	hdrOK    bool
	roots    [][]byte
	items    []c12Item
	overrun  bool
}

func c12Decode(arch []byte) (o c12Obs) {
	if p := recovered(func() {
		roots, it, err := car.Decode(bytes.NewReader(arch))
		if err != nil {
			return
		}
		o.hdrOK = true
		for _, r := range roots {
			o.roots = append(o.roots, []byte(r.Binary()))
		}
		for blk, err := range it {
			if len(o.items) > len(arch)+8 {
				o.overrun = true
				break
			}
			if err != nil {
				o.items = append(o.items, c12Item{})
				continue
			}
			o.items = append(o.items, c12Item{true, []byte(blk.Link().Binary()), append([]byte{}, blk.Bytes()...)})
		}
	}); p != nil {
		o.panicked = fmt.Sprint(p)
	}
	return o
}

func c12Cksum(d []byte) string {
	var s1, s2 uint64
	for _, b := range d {
		s1 += uint64(b) + 1
		s2 += s1
	}
	v := new(big.Int).Lsh(new(big.Int).SetUint64(s2), 32)
	return v.Add(v, new(big.Int).SetUint64(s1)).String()
}

// 0 not exercised, 1 message, 2 error, 3 panic
func c12MsgDecode(arch []byte, useResponse bool) int {
	res := 0
	if p := recovered(func() {
		var err error
		if useResponse {
			_, err = response.Decode(uhttp.NewHTTPResponse(200, bytes.NewReader(arch), nil))
		} else {
			_, err = request.Decode(uhttp.NewHTTPRequest(bytes.NewReader(arch), nil))
		}
		if err != nil {
			res = 2
		} else {
			res = 1
		}
	}); p != nil {
		res = 3
	}
	return res
}

// ---------------------------------------------------------------------------
// reference walk (third-party code only): hash answers and header oracle

type c12HE struct {
	code, length uint64
	off, dlen    int
	digest       []byte
	ok           bool
}

func (e c12HE) key() string {
	return fmt.Sprintf("%d/%d/%d/%d/%v/%x", e.code, e.length, e.off, e.dlen, e.ok, e.digest)
}

type c12Ref struct {
	orc      string // "err" | "ok" | "ok-canonical"
	orcRoots [][]byte
	orcVer   uint64
	tbl      []c12HE
}

func c12Walk(arch []byte) (ref c12Ref) {
	ref.orc = "err"
	rd := bytes.NewReader(arch)
	br := bufio.NewReader(rd)
	pos := func() int { return len(arch) - rd.Len() - br.Buffered() }
	hb, err := util.LdRead(br)
	if err != nil {
		return
	}
	var ch ipldcar.CarHeader
	bad := false
	var rb []byte
	if p := recovered(func() {
		if err := cbor.DecodeInto(hb, &ch); err != nil {
			bad = true
			return
		}
		var err error
		rb, err = cbor.DumpObject(&ch)
		if err != nil {
			bad = true
		}
	}); p != nil || bad {
		return
	}
	ref.orc = "ok"
	if bytes.Equal(rb, hb) {
		ref.orc = "ok-canonical"
	}
	ref.orcVer = ch.Version
	for _, r := range ch.Roots {
		ref.orcRoots = append(ref.orcRoots, r.Bytes())
	}
	for {
		if _, err := br.Peek(1); err != nil {
			return
		}
		data, err := util.LdRead(br)
		if err != nil {
			continue
		}
		end := pos()
		n, c, err := cid.CidFromReader(bytes.NewReader(data))
		if err != nil {
			continue
		}
		payload := data[n:]
		p := c.Prefix()
		if p.MhType == mh.IDENTITY {
			continue
		}
		e := c12HE{code: p.MhType, length: uint64(p.MhLength), off: end - len(payload), dlen: len(payload)}
		recovered(func() {
			h, err := mh.Sum(payload, p.MhType, p.MhLength)
			if err != nil {
				return
			}
			dm, err := mh.Decode(h)
			if err != nil {
				return
			}
			e.digest, e.ok = dm.Digest, true
		})
		ref.tbl = append(ref.tbl, e)
	}
}

// ---------------------------------------------------------------------------
// mutations

type c12Mut struct {
	kind string // none trunc flip raw
	n    int
	x    byte
	raw  []byte
	tag  string // finer classification for statistics / violation keys
}

func (m c12Mut) apply(base []byte) []byte {
	switch m.kind {
	case "none":
		return base
	case "trunc":
		return base[:m.n]
	case "flip":
		b := append([]byte{}, base...)
		b[m.n] ^= m.x
		return b
	default:
		return m.raw
	}
}

func (m c12Mut) coq() string {
	switch m.kind {
	case "none":
		return "MNone"
	case "trunc":
		return fmt.Sprintf("(MTrunc %d)", m.n)
	case "flip":
		return fmt.Sprintf("(MFlip %d %d)", m.n, m.x)
	default:
		return "(MRaw " + hx(m.raw) + ")"
	}
}

func uvar(n uint64) []byte {
	buf := make([]byte, binary.MaxVarintLen64)
	return buf[:binary.PutUvarint(buf, n)]
}

func c12Header(roots [][]byte, version uint64, nilRoots bool) []byte {
	var cids []cid.Cid
	if !nilRoots {
		cids = []cid.Cid{}
	}
	for _, r := range roots {
		_, c, _ := cid.CidFromBytes(r)
		cids = append(cids, c)
	}
	var buf bytes.Buffer
	if err := ipldcar.WriteHeader(&ipldcar.CarHeader{Roots: cids, Version: version}, &buf); err != nil {
		panic(err)
	}
	return buf.Bytes()
}

type c12Archive struct {
	id     int
	kind   string // "random" | "message"
	roots  [][]byte
	blocks []c12Blk
	bytes  []byte
	bounds []int // bounds[i] = offset of section i; bounds[len(blocks)] = len(bytes)
	msg    bool
}

func c12Mutations(r *rand.Rand, a *c12Archive, exhaustiveLimit int, nSample int) []c12Mut {
	S := len(a.bytes)
	H := a.bounds[0]
	nb := len(a.blocks)
	muts := []c12Mut{{kind: "none", tag: "roundtrip"}}
	// positions of structure: header, and for every section its length prefix, its cid and the first/last data bytes
	structural := map[int]bool{}
	for i := 0; i < H && i < S; i++ {
		structural[i] = true
	}
	for i := 0; i < nb; i++ {
		lo, hi := a.bounds[i], a.bounds[i+1]
		lim := lo + 3 + len(a.blocks[i].cid) + 2
		if len(a.blocks[i].cid) > 48 { // identity cids carry the data: sample them instead
			lim = lo + 3 + 8
		}
		for p := lo; p < lim && p < hi; p++ {
			structural[p] = true
		}
		for p := hi - 2; p < hi; p++ {
			if p >= lo {
				structural[p] = true
			}
		}
	}
	var positions []int
	if S <= exhaustiveLimit {
		for p := 0; p < S; p++ {
			positions = append(positions, p)
		}
	} else {
		for p := range structural {
			positions = append(positions, p)
		}
		for i := 0; i < nSample; i++ {
			p := r.Intn(S)
			if !structural[p] {
				structural[p] = true
				positions = append(positions, p)
			}
		}
		sort.Ints(positions)
	}
	where := func(p int) string {
		if p < H {
			return "header"
		}
		for i := 0; i < nb; i++ {
			if p < a.bounds[i+1] {
				off := p - a.bounds[i]
				ll := len(uvar(uint64(len(a.blocks[i].cid) + len(a.blocks[i].data))))
				switch {
				case off < ll:
					return "len"
				case off < ll+len(a.blocks[i].cid):
					return "cid"
				default:
					return "data"
				}
			}
		}
		return "end"
	}
	for _, p := range positions {
		tag := "trunc-" + where(p)
		if p >= H {
			for i := 0; i <= nb; i++ {
				if a.bounds[i] == p {
					tag = "trunc-boundary"
				}
			}
			for i := 0; i < nb; i++ {
				ll := len(uvar(uint64(len(a.blocks[i].cid) + len(a.blocks[i].data))))
				if a.bounds[i]+ll == p {
					tag = "trunc-after-len"
				}
			}
		}
		muts = append(muts, c12Mut{kind: "trunc", n: p, tag: tag})
	}
	for _, p := range positions {
		for _, x := range []byte{0x01, 0x80} {
			muts = append(muts, c12Mut{kind: "flip", n: p, x: x, tag: "flip-" + where(p)})
		}
		if r.Intn(4) == 0 {
			x := byte(1 << uint(1+r.Intn(6)))
			muts = append(muts, c12Mut{kind: "flip", n: p, x: x, tag: "flip-" + where(p)})
		}
	}
	// splices and special shapes
	hdr := a.bytes[:H]
	sec := func(i int) []byte { return a.bytes[a.bounds[i]:a.bounds[i+1]] }
	secs := func(idx []int) []byte {
		var out []byte
		for _, i := range idx {
			out = append(out, sec(i)...)
		}
		return out
	}
	all := make([]int, nb)
	for i := range all {
		all[i] = i
	}
	raw := func(tag string, b []byte) { muts = append(muts, c12Mut{kind: "raw", raw: b, tag: tag}) }
	for i := 0; i < nb; i++ {
		del := append(append([]int{}, all[:i]...), all[i+1:]...)
		raw("splice-delete", cat(hdr, secs(del)))
		dup := append(append(append([]int{}, all[:i+1]...), i), all[i+1:]...)
		raw("splice-duplicate", cat(hdr, secs(dup)))
		if i+1 < nb {
			sw := append([]int{}, all...)
			sw[i], sw[i+1] = sw[i+1], sw[i]
			raw("splice-swap", cat(hdr, secs(sw)))
		}
		// the payload of one section moved under the cid of another
		j := r.Intn(nb)
		if j != i {
			x := cat(a.blocks[i].cid, a.blocks[j].data)
			raw("splice-foreign-data", cat(a.bytes[:a.bounds[i]], uvar(uint64(len(x))), x, a.bytes[a.bounds[i+1]:]))
		}
		// a section that announces a HUGE length (around the signed / unsigned 64-bit, 32-bit and the 32 MiB section limits)
		if i < 2 {
			for _, v := range []uint64{1 << 63, 1<<63 + 1, 1<<64 - 1, 1<<63 - 1, 1 << 62, 1 << 32, 1<<32 - 1, 1 << 31, 33554432, 33554433, 33554431} {
				raw("huge-len", cat(a.bytes[:a.bounds[i]], uvar(v), a.bytes[a.bounds[i]+len(uvar(uint64(len(a.blocks[i].cid)+len(a.blocks[i].data)))):]))
			}
			// an 11-octet varint (overflows 64 bits)
			raw("huge-len", cat(a.bytes[:a.bounds[i]], []byte{0xff, 0xff, 0xff, 0xff, 0xff, 0xff, 0xff, 0xff, 0xff, 0xff, 0x01}, a.bytes[a.bounds[i]:]))
		}
		// non-minimal length prefix (encoding/binary accepts it)
		l := uint64(len(a.blocks[i].cid) + len(a.blocks[i].data))
		if l < 128 {
			raw("len-nonminimal", cat(a.bytes[:a.bounds[i]], []byte{byte(l) | 0x80, 0x00}, a.blocks[i].cid, a.blocks[i].data, a.bytes[a.bounds[i+1]:]))
		}
	}
	for i := 0; i <= nb; i++ {
		at := a.bounds[i]
		raw("zero-section", cat(a.bytes[:at], []byte{0}, a.bytes[at:]))
		switch r.Intn(4) {
		case 0:
			raw("len-too-big", cat(a.bytes[:at], uvar(33554433), a.bytes[at:]))
		case 1:
			raw("len-overflow", cat(a.bytes[:at], bytes.Repeat([]byte{0xff}, 10), a.bytes[at:]))
		case 2:
			raw("len-overflow", cat(a.bytes[:at], bytes.Repeat([]byte{0x80}, 9), []byte{0x02}, a.bytes[at:]))
		case 3:
			raw("len-max-ok", cat(a.bytes[:at], uvar(33554432), a.bytes[at:]))
		}
	}
	g := make([]byte, 1+r.Intn(20))
	r.Read(g)
	raw("trailing-garbage", cat(a.bytes, g))
	raw("trailing-garbage", cat(a.bytes, []byte{byte(1 + r.Intn(100))}))
	body := a.bytes[H:]
	for _, v := range []uint64{0, 2, 23, 24, 300, 1 << 40} {
		raw("header-version", cat(c12Header(a.roots, v, false), body))
	}
	raw("header-nil-roots", cat(c12Header(nil, 1, true), body))
	raw("header-no-roots", cat(c12Header(nil, 1, false), body))
	raw("header-only", append([]byte{}, hdr...))
	raw("header-zero-length", cat([]byte{0}, body))
	raw("header-too-big", cat(uvar(33554433), a.bytes))
	raw("empty-input", []byte{})
	// header in another (valid CBOR) form: keys swapped, version as uint8-with-extra-byte
	if pl := hdrPayload(hdr); len(pl) > 2 {
		// {"version":1,"roots":[...]} (keys in the other order) and a non-minimal version integer
		if idx := bytes.Index(pl, []byte("gversion")); idx > 0 {
			alt := cat([]byte{0xa2}, pl[idx:], pl[1:idx])
			raw("header-noncanonical", cat(uvar(uint64(len(alt))), alt, body))
			alt2 := cat(pl[:len(pl)-1], []byte{0x18, pl[len(pl)-1]})
			raw("header-noncanonical", cat(uvar(uint64(len(alt2))), alt2, body))
		}
	}
	return muts
}

func hdrPayload(hdr []byte) []byte {
	_, n := binary.Uvarint(hdr)
	return hdr[n:]
}

// ---------------------------------------------------------------------------
// messages (request.Decode / response.Decode over blockstore.NewBlockReader)

func c12Signer(seed byte) principal.Signer {
	sd := bytes.Repeat([]byte{seed}, 32)
	priv := ed25519.NewKeyFromSeed(sd)
	pub := priv.Public().(ed25519.PublicKey)
	b := cat(uvar(0x1300), sd, uvar(0xed), pub)
	s, err := edsigner.Decode(b)
	if err != nil {
		panic(err)
	}
	return s
}

func c12Message(r *rand.Rand) (*c12Archive, error) {
	alice, service := c12Signer(byte(1+r.Intn(100))), c12Signer(byte(101+r.Intn(100)))
	var invs []invocation.Invocation
	n := 1 + r.Intn(2)
	for i := 0; i < n; i++ {
		capb := ucan.NewCapability(fmt.Sprintf("test/op%d", r.Intn(100)), alice.DID().String(), ucan.NoCaveats{})
		inv, err := invocation.Invoke(alice, service, capb, delegation.WithExpiration(2000000000+r.Intn(1000)))
		if err != nil {
			return nil, err
		}
		invs = append(invs, inv)
	}
	msg, err := message.Build(invs, nil)
	if err != nil {
		return nil, err
	}
	req, err := request.Encode(msg)
	if err != nil {
		return nil, err
	}
	body, err := io.ReadAll(req.Body())
	if err != nil {
		return nil, err
	}
	a := &c12Archive{kind: "message", msg: true, bytes: body}
	a.roots = [][]byte{[]byte(msg.Root().Link().Binary())}
	for b, err := range msg.Blocks() {
		if err != nil {
			return nil, err
		}
		a.blocks = append(a.blocks, c12Blk{[]byte(b.Link().Binary()), b.Bytes(), "message-block"})
	}
	return a, nil
}

// ---------------------------------------------------------------------------
// case files

type c12Case struct {
	Id    int    `json:"id"`
	Tag   string `json:"tag"`
	Mut   string `json:"mut"`
	N     int    `json:"n"`
	X     int    `json:"x"`
	Raw   string `json:"raw,omitempty"`
	Obs   string `json:"obs"`
	MsgRC int    `json:"msg"`
}

// failingReader: an underlying reader that breaks (connection reset, short body) — not io.EOF
type failingReader struct{}

func (failingReader) Read([]byte) (int, error) { return 0, errors.New("connection reset by peer") }

type c12Direct struct {
	Kind    string `json:"kind"`
	Tag     string `json:"tag"`
	Archive string `json:"archive"`
	Detail  string `json:"detail"`
	Obs     string `json:"obs"`
}

func c12ObsString(o c12Obs) string {
	if o.panicked != "" {
		return "PANIC " + o.panicked
	}
	if !o.hdrOK {
		return "HdrErr"
	}
	var sb strings.Builder
	fmt.Fprintf(&sb, "roots=%d [", len(o.roots))
	for i, it := range o.items {
		if i > 0 {
			sb.WriteString(" ")
		}
		if it.ok {
			fmt.Fprintf(&sb, "Ok(%s/%d)", hex.EncodeToString(it.cid), len(it.data))
		} else {
			sb.WriteString("Err")
		}
	}
	sb.WriteString("]")
	if o.overrun {
		sb.WriteString(" OVERRUN")
	}
	return sb.String()
}

type c12Names struct {
	defs  []string
	byKey map[string]string
}

func (n *c12Names) add(prefix, key, typ, term string) string {
	if v, ok := n.byKey[key]; ok {
		return v
	}
	name := fmt.Sprintf("%s%d", prefix, len(n.byKey))
	n.byKey[key] = name
	n.defs = append(n.defs, fmt.Sprintf("Definition %s : %s := %s.", name, typ, term))
	return name
}

func c12HECoq(e c12HE) string {
	d := "None"
	if e.ok {
		d = "(Some " + hx(e.digest) + ")"
	}
	return fmt.Sprintf("(HE %d %d %d %d %s)", e.code, e.length, e.off, e.dlen, d)
}

func c12ItemCoq(it c12Item) string {
	if !it.ok {
		return "EErr"
	}
	return fmt.Sprintf("(EOk %s %d %s)", hx(it.cid), len(it.data), c12Cksum(it.data))
}

func c12RootsCoq(roots [][]byte) string {
	var rs []string
	for _, r := range roots {
		rs = append(rs, hx(r))
	}
	return "[" + strings.Join(rs, "; ") + "]"
}

type c12Stats struct {
	Archives       int            `json:"archives"`
	Cases          int            `json:"cases"`
	ByTag          map[string]int `json:"by_tag"`
	ByOutcome      map[string]int `json:"by_outcome"`
	BlockKinds     map[string]int `json:"block_kinds"`
	ArchiveSizes   []int          `json:"archive_sizes"`
	BlocksPerArch  map[int]int    `json:"blocks_per_archive"`
	RootsPerArch   map[int]int    `json:"roots_per_archive"`
	Duplicates     int            `json:"archives_with_duplicate_cids"`
	Nontrivial     int            `json:"nontrivial"`
	OracleUsed     map[string]int `json:"header_oracle"`
	MsgCases       map[string]int `json:"message_decode"`
	Samples        []any          `json:"samples"`
	Direct         []c12Direct    `json:"direct"`
	LargeArchives  int            `json:"large_archives"`
	LargeBytes     int            `json:"large_archive_bytes"`
	Interleaved    int            `json:"interleaved_pairs"`
	ReaderErrors   int            `json:"reader_errors_at_boundaries"`
	Files          map[string]any `json:"files"`
	EncodeChecked  int            `json:"encode_checked"`
	HashEntries    int            `json:"hash_entries"`
	EmptyDataBlock int            `json:"blocks_with_empty_data"`
}

func c12WriteArchive(o genOpts, a *c12Archive, muts []c12Mut, st *c12Stats, fileNo *int, useResponse bool) error {
	// Coq spends ~50 us per character of a string literal: bound the text per file, not only the cases
	const perFile = 500
	const perFileChars = 110000
	baseObs := c12Decode(a.bytes)
	baseSig := c12ObsString(baseObs)
	for start := 0; start < len(muts); {
		names := &c12Names{byKey: map[string]string{}}
		var items []string
		var meta []c12Case
		chars := 0
		end := start
		for k := 0; start+k < len(muts) && k < perFile && chars < perFileChars; k++ {
			m := muts[start+k]
			end = start + k + 1
			arch := m.apply(a.bytes)
			obs := c12Decode(arch)
			ref := c12Walk(arch)
			msgrc := 0
			if a.msg {
				msgrc = c12MsgDecode(arch, useResponse)
				st.MsgCases[[]string{"-", "message", "error", "panic"}[msgrc]]++
			}
			sig := c12ObsString(obs)
			// ---- statistics
			st.Cases++
			st.ByTag[m.tag]++
			st.HashEntries += len(ref.tbl)
			st.OracleUsed[ref.orc]++
			oc := "all-ok"
			switch {
			case obs.panicked != "":
				oc = "panic"
			case !obs.hdrOK:
				oc = "header-error"
			default:
				for _, it := range obs.items {
					if !it.ok {
						oc = "some-error"
					}
				}
			}
			st.ByOutcome[oc]++
			if sig != baseSig {
				st.Nontrivial++
			}
			// ---- direct property checks on the observation (independent of the model)
			direct := func(kind, detail string) {
				if len(st.Direct) < 200 {
					st.Direct = append(st.Direct, c12Direct{kind, m.tag, hex.EncodeToString(arch), detail, sig})
				}
			}
			if obs.panicked != "" {
				direct("decode-panic", obs.panicked)
			}
			// the block stores built on the decoder forward what it reports: when a section of this archive is delivered as
			// an error, NewBlockStore / NewBlockReader over a fresh decode of it return an error instead of a store that
			// silently lacks blocks
			if obs.hdrOK && obs.panicked == "" && !obs.overrun {
				hasErr := false
				for _, it := range obs.items {
					if !it.ok {
						hasErr = true
					}
				}
				if hasErr {
					for vi, mk := range []func(it func(func(ipld.Block, error) bool)) error{
						func(it func(func(ipld.Block, error) bool)) error {
							_, err := blockstore.NewBlockStore(blockstore.WithBlocksIterator(it))
							return err
						},
						func(it func(func(ipld.Block, error) bool)) error {
							_, err := blockstore.NewBlockReader(blockstore.WithBlocksIterator(it))
							return err
						}} {
						var serr error
						if p := recovered(func() {
							_, blocks, derr := car.Decode(bytes.NewReader(arch))
							if derr != nil {
								serr = derr
								return
							}
							serr = mk(blocks)
						}); p != nil {
							direct("blockstore-panic", fmt.Sprintf("block store over the decoder panicked: %v", p))
						} else if serr == nil {
							direct("blockstore-swallows-error", []string{"NewBlockStore", "NewBlockReader"}[vi]+"(WithBlocksIterator(car.Decode(...))) returned a store and no error although the decoder reports a bad section")
						}
					}
				}
			}
			if obs.overrun {
				direct("iterator-does-not-end", "more items than input bytes")
			}
			for _, it := range obs.items {
				if !it.ok {
					continue
				}
				_, c, err := cid.CidFromBytes(it.cid)
				bad := err != nil
				if !bad {
					s, err := c.Prefix().Sum(it.data)
					bad = err != nil || !s.Equals(c)
				}
				if bad {
					direct("integrity", "delivered block whose bytes do not hash to its CID: "+hex.EncodeToString(it.cid))
				}
			}
			if m.kind == "trunc" && m.n > a.bounds[0] && m.tag != "trunc-boundary" && baseObs.hdrOK && obs.hdrOK {
				// a cut strictly inside a section of a valid archive: the blocks before it, then an error
				hasErr := false
				for _, it := range obs.items {
					if !it.ok {
						hasErr = true
					}
				}
				if !hasErr {
					direct("silent-truncation", fmt.Sprintf("archive of %d bytes cut at %d (%s): %d block(s) delivered and no error", len(a.bytes), m.n, m.tag, len(obs.items)))
				}
			}
			if msgrc == 3 {
				direct("message-decode-panic", "request/response.Decode panicked")
			}
			// ---- the Gallina term
			var tbl []string
			for _, e := range ref.tbl {
				tbl = append(tbl, names.add("e", e.key(), "hentry", c12HECoq(e)))
			}
			orc := "OErr"
			if ref.orc != "err" {
				rc := c12RootsCoq(ref.orcRoots)
				orc = fmt.Sprintf("(OOk %s %d %s)", names.add("r", rc, "list bstr", rc), ref.orcVer, coqBool(ref.orc == "ok-canonical"))
			}
			eh := "EHdrErr"
			if obs.hdrOK {
				rc := c12RootsCoq(obs.roots)
				eh = "(EHdrOk " + names.add("r", rc, "list bstr", rc) + ")"
			}
			var its []string
			if obs.panicked != "" || obs.overrun {
				eh = "EHdrErr"
				its = []string{"EErr", "EErr", "EErr"} // never matches: forces a mismatch
			}
			for _, it := range obs.items {
				ic := c12ItemCoq(it)
				if it.ok {
					ic = names.add("i", ic, "eitem", ic)
				}
				its = append(its, ic)
			}
			items = append(items, fmt.Sprintf("C 0 %s [%s] %s %s [%s] %d", m.coq(), strings.Join(tbl, "; "), orc, eh, strings.Join(its, "; "), msgrc))
			chars = len(items[len(items)-1])
			for _, d := range names.defs {
				chars += len(d)
			}
			for _, it := range items {
				chars += len(it)
			}
			cm := c12Case{Id: k, Tag: m.tag, Mut: m.kind, N: m.n, X: int(m.x), Obs: sig, MsgRC: msgrc}
			if m.kind == "raw" {
				cm.Raw = hex.EncodeToString(m.raw)
			}
			meta = append(meta, cm)
			if len(st.Samples) < 10 && (k%37 == 5) {
				st.Samples = append(st.Samples, map[string]any{"archive": a.id, "mutation": m.tag, "at": m.n, "xor": m.x, "observed": sig})
			}
		}
		var blks []string
		for _, b := range a.blocks {
			blks = append(blks, "("+hx(b.cid)+", "+hx(b.data)+")")
		}
		var sb strings.Builder
		sb.WriteString("From Ucanto Require Import Base Varint Cid Car Check_C12.\nOpen Scope N_scope.\nOpen Scope string_scope.\n")
		for _, d := range names.defs {
			sb.WriteString(d + "\n")
		}
		fmt.Fprintf(&sb, "Definition encs : list enc_case := [(%s, [%s], %s)].\n", c12RootsCoq(a.roots), strings.Join(blks, ";\n  "), hx(a.bytes))
		fmt.Fprintf(&sb, "Definition cases : list case := %s.\n", coqList(items))
		sb.WriteString("Definition M := Eval vm_compute in check_all true encs cases.\nPrint M.\n")
		name := fmt.Sprintf("cases_C12_%03d", *fileNo)
		*fileNo++
		if err := writeFile(o.out, name+".v", sb.String()); err != nil {
			return err
		}
		if err := writeJSON(o.out, name+".json", map[string]any{
			"archive_id": a.id, "kind": a.kind, "base": hex.EncodeToString(a.bytes), "cases": meta,
			"bounds": a.bounds, "blocks": len(a.blocks), "roots": len(a.roots)}); err != nil {
			return err
		}
		start = end
	}
	return nil
}

// c12LayoutError: car.Encode did not write one section per block handed to it, in order, as (length, cid, data)
type c12LayoutError struct {
	archive []byte
	detail  string
}

func (e *c12LayoutError) Error() string { return e.detail }

func c12Bounds(a *c12Archive) error {
	for i := 0; i <= len(a.blocks); i++ {
		b, err := c12Encode(a.roots, a.blocks[:i])
		if err != nil {
			return err
		}
		a.bounds = append(a.bounds, len(b))
	}
	// the encoder writes the sequence it is given: section i is uvarint(len(cid)+len(data)) ++ cid ++ data, nothing is
	// dropped, merged or reordered (the mutations below rely on it, and so does every reader of Blocks())
	for i, blk := range a.blocks {
		want := cat(uvar(uint64(len(blk.cid)+len(blk.data))), blk.cid, blk.data)
		lo, hi := a.bounds[i], a.bounds[i+1]
		if lo > hi || hi > len(a.bytes) || !bytes.Equal(a.bytes[lo:hi], want) {
			return &c12LayoutError{a.bytes, fmt.Sprintf("car.Encode of %d blocks: section %d is not the block it was given (archive %d bytes, expected section of %d bytes at offset %d)", len(a.blocks), i, len(a.bytes), len(want), lo)}
		}
	}
	if a.bounds[len(a.blocks)] != len(a.bytes) {
		return &c12LayoutError{a.bytes, "car.Encode wrote more than the sections of the blocks it was given"}
	}
	return nil
}

func c12Random(r *rand.Rand, maxBlocks, maxData int) (*c12Archive, error) {
	a := &c12Archive{kind: "random"}
	nb := r.Intn(maxBlocks + 1)
	for i := 0; i < nb; i++ {
		if i > 0 && r.Intn(5) == 0 {
			a.blocks = append(a.blocks, a.blocks[r.Intn(i)]) // duplicate CID
			continue
		}
		a.blocks = append(a.blocks, c12MkBlock(r, maxData))
	}
	nr := []int{0, 1, 1, 1, 2, 3}[r.Intn(6)]
	for i := 0; i < nr; i++ {
		if nb > 0 && r.Intn(4) != 0 {
			a.roots = append(a.roots, a.blocks[r.Intn(nb)].cid)
		} else {
			a.roots = append(a.roots, c12MkBlock(r, 8).cid) // a root that is not in the archive
		}
	}
	var err error
	a.bytes, err = c12Encode(a.roots, a.blocks)
	if err != nil {
		return nil, err
	}
	return a, c12Bounds(a)
}

func init() {
	gens["C12"] = func(o genOpts) error {
		r := rand.New(rand.NewSource(o.seed*7919 + 12))
		nSmall, nLarge, nMsg := 9, 5, 2
		sample := 40
		if o.tier == "thorough" {
			nSmall, nLarge, nMsg = 70, 40, 8
			sample = 120
		}
		st := &c12Stats{ByTag: map[string]int{}, ByOutcome: map[string]int{}, BlockKinds: map[string]int{},
			BlocksPerArch: map[int]int{}, RootsPerArch: map[int]int{}, OracleUsed: map[string]int{},
			MsgCases: map[string]int{}, Files: map[string]any{}}
		fileNo := 0
		id := 0
		account := func(a *c12Archive) {
			a.id = id
			id++
			st.Archives++
			st.ArchiveSizes = append(st.ArchiveSizes, len(a.bytes))
			st.BlocksPerArch[len(a.blocks)]++
			st.RootsPerArch[len(a.roots)]++
			seen := map[string]bool{}
			dup := false
			for _, b := range a.blocks {
				st.BlockKinds[b.kind]++
				if len(b.data) == 0 {
					st.EmptyDataBlock++
				}
				if seen[string(b.cid)] {
					dup = true
				}
				seen[string(b.cid)] = true
			}
			if dup {
				st.Duplicates++
			}
			st.EncodeChecked++
		}
		for i := 0; i < nSmall+nLarge; i++ {
			var a *c12Archive
			var err error
			if i < nSmall {
				a, err = c12Random(r, []int{0, 1, 2, 3, 4, 6}[r.Intn(6)], 24) // small: every position is mutated
			} else {
				a, err = c12Random(r, 6, 300)
			}
			var le *c12LayoutError
			if errors.As(err, &le) {
				if len(st.Direct) < 200 {
					st.Direct = append(st.Direct, c12Direct{"encode-layout", "roundtrip", hex.EncodeToString(le.archive), le.detail, ""})
				}
				continue
			}
			if err != nil {
				return err
			}
			account(a)
			// gen_cov.go: CarBlock.Offset / Length of every delivered block locate its bytes in the archive
			if detail, _ := covC12Offsets(a.bytes); detail != "" && len(st.Direct) < 200 {
				st.Direct = append(st.Direct, c12Direct{"carblock-offset", "roundtrip", hex.EncodeToString(a.bytes), detail, ""})
			}
			if err := c12WriteArchive(o, a, c12Mutations(r, a, 420, sample), st, &fileNo, false); err != nil {
				return err
			}
		}
		for i := 0; i < nMsg; i++ {
			a, err := c12Message(r)
			if err == nil {
				err = c12Bounds(a)
			}
			if le := (*c12LayoutError)(nil); errors.As(err, &le) {
				if len(st.Direct) < 200 {
					st.Direct = append(st.Direct, c12Direct{"encode-layout", "roundtrip", hex.EncodeToString(le.archive), le.detail, ""})
				}
				continue
			}
			if err != nil {
				return err
			}
			account(a)
			if err := c12WriteArchive(o, a, c12Mutations(r, a, 0, sample), st, &fileNo, i%2 == 1); err != nil {
				return err
			}
		}
		if err := c12LargeArchives(r, st); err != nil {
			return err
		}
		// --- two archives open at once: Decode(A), Decode(B), only then drain A, then B: each iterator yields ITS archive
		// --- a reader that fails (not with EOF) exactly between two sections: the failure is forwarded as an error item
		var pool []*c12Archive
		for i := 0; i < 12; i++ {
			a, err := c12Random(r, 2+r.Intn(5), 60)
			if le := (*c12LayoutError)(nil); errors.As(err, &le) {
				if len(st.Direct) < 200 {
					st.Direct = append(st.Direct, c12Direct{"encode-layout", "roundtrip", hex.EncodeToString(le.archive), le.detail, ""})
				}
				continue
			}
			if err != nil {
				return err
			}
			pool = append(pool, a)
		}
		same := func(o c12Obs, a *c12Archive) bool {
			if !o.hdrOK || o.panicked != "" || len(o.items) != len(a.blocks) {
				return false
			}
			for k, it := range o.items {
				if !it.ok || !bytes.Equal(it.cid, a.blocks[k].cid) || !bytes.Equal(it.data, a.blocks[k].data) {
					return false
				}
			}
			return true
		}
		drain := func(it iter.Seq2[ipld.Block, error], o *c12Obs) {
			for blk, err := range it {
				if err != nil {
					// a consumer stops at the first error (a reader that keeps failing would be asked again and again)
					o.items = append(o.items, c12Item{})
					break
				}
				o.items = append(o.items, c12Item{true, []byte(blk.Link().Binary()), append([]byte{}, blk.Bytes()...)})
			}
		}
		for i := 0; i+1 < len(pool); i++ {
			a, b := pool[i], pool[i+1]
			var oa, ob c12Obs
			done := make(chan string, 1)
			go func() {
				p := recovered(func() {
					_, ia, ea := car.Decode(bytes.NewReader(a.bytes))
					_, ib, eb := car.Decode(bytes.NewReader(b.bytes))
					if ea != nil || eb != nil {
						return
					}
					oa.hdrOK, ob.hdrOK = true, true
					drain(ia, &oa)
					drain(ib, &ob)
				})
				if p != nil {
					done <- fmt.Sprint(p)
				} else {
					done <- ""
				}
			}()
			select {
			case pn := <-done:
				oa.panicked = pn
			case <-time.After(20 * time.Second):
				oa.panicked = "hang: draining two interleaved archives did not finish"
			}
			st.Interleaved++
			if !same(oa, a) || !same(ob, b) {
				st.Direct = append(st.Direct, c12Direct{"interleaved-decode", "two archives decoded before either is drained", hex.EncodeToString(a.bytes) + " / " + hex.EncodeToString(b.bytes),
					"each iterator must yield exactly the blocks of its own archive", c12ObsString(oa) + " / " + c12ObsString(ob)})
			}
		}
		for _, a := range pool {
			bounds := a.bounds // bounds[k] = offset where section k starts (k blocks precede it)
			if len(bounds) != len(a.blocks)+1 {
				continue
			}
			for k, cut := range bounds[:len(bounds)-1] {
				var o c12Obs
				if p := recovered(func() {
					_, it, err := car.Decode(io.MultiReader(bytes.NewReader(a.bytes[:cut]), failingReader{}))
					if err != nil {
						return
					}
					o.hdrOK = true
					drain(it, &o)
				}); p != nil {
					o.panicked = fmt.Sprint(p)
				}
				st.ReaderErrors++
				okk := o.hdrOK && o.panicked == "" && len(o.items) == k+1 && !o.items[k].ok
				for j := 0; okk && j < k; j++ {
					okk = o.items[j].ok && bytes.Equal(o.items[j].cid, a.blocks[j].cid)
				}
				if !okk {
					st.Direct = append(st.Direct, c12Direct{"reader-error-at-boundary", fmt.Sprintf("the reader fails after section %d of %d", k, len(a.blocks)), hex.EncodeToString(a.bytes),
						"the blocks before the failure, then an error item — never a clean end", c12ObsString(o)})
				}
			}
		}
		return writeJSON(o.out, "stats.json", st)
	}

	// harness c12one <hex archive> <outdir>: one archive through car.Decode, and the case file for the model
	extraCmds["c12one"] = func(args []string) int {
		if len(args) < 2 {
			fmt.Fprintln(os.Stderr, "usage: harness c12one <hex> <outdir>")
			return 2
		}
		arch, err := hex.DecodeString(args[0])
		if err != nil {
			fmt.Fprintln(os.Stderr, err)
			return 2
		}
		obs := c12Decode(arch)
		ref := c12Walk(arch)
		var tbl []string
		for _, e := range ref.tbl {
			tbl = append(tbl, c12HECoq(e))
		}
		orc := "OErr"
		if ref.orc != "err" {
			orc = fmt.Sprintf("(OOk %s %d %s)", c12RootsCoq(ref.orcRoots), ref.orcVer, coqBool(ref.orc == "ok-canonical"))
		}
		eh := "EHdrErr"
		if obs.hdrOK {
			eh = "(EHdrOk " + c12RootsCoq(obs.roots) + ")"
		}
		var its []string
		for _, it := range obs.items {
			its = append(its, c12ItemCoq(it))
		}
		var sb strings.Builder
		sb.WriteString("From Ucanto Require Import Base Varint Cid Car Check_C12.\nOpen Scope N_scope.\nOpen Scope string_scope.\n")
		fmt.Fprintf(&sb, "Definition arch : bstr := %s.\n", hx(arch))
		msgrc := 0
		if len(args) > 2 && args[2] == "msg" {
			msgrc = c12MsgDecode(arch, false)
			if rc2 := c12MsgDecode(arch, true); rc2 != msgrc {
				msgrc = 3
			}
		}
		fmt.Fprintf(&sb, "Definition c : case := C 0 (MRaw arch) [%s] %s %s [%s] %d.\n", strings.Join(tbl, "; "), orc, eh, strings.Join(its, "; "), msgrc)
		sb.WriteString("Definition M := Eval vm_compute in check_all true [] [c].\nPrint M.\n")
		sb.WriteString("Definition model_fixed := Eval vm_compute in (let r := car_decode (tbl_lookup arch (c_tbl c)) true (fun _ => match c_orc c with OOk r v _ => Some (r, v) | _ => None end) arch in (match fst r with HdrOk _ => 1 | HdrErr => 0 end, map (fun i => match i with IOk _ d => 1 + N.of_nat (length d) | IErr => 0 end) (snd r))).\nPrint model_fixed.\n")
		sb.WriteString("Definition model_pinned := Eval vm_compute in (let r := car_decode (tbl_lookup arch (c_tbl c)) false (fun _ => match c_orc c with OOk r v _ => Some (r, v) | _ => None end) arch in (match fst r with HdrOk _ => 1 | HdrErr => 0 end, map (fun i => match i with IOk _ d => 1 + N.of_nat (length d) | IErr => 0 end) (snd r))).\nPrint model_pinned.\n")
		if err := os.MkdirAll(args[1], 0o755); err != nil {
			fmt.Fprintln(os.Stderr, err)
			return 2
		}
		if err := os.WriteFile(filepath.Join(args[1], "replay_case.v"), []byte(sb.String()), 0o644); err != nil {
			fmt.Fprintln(os.Stderr, err)
			return 2
		}
		out, _ := json.Marshal(map[string]any{"observed": c12ObsString(obs), "bytes": len(arch),
			"request_response_decode": []string{"not exercised", "message", "error", "panic or request/response disagree"}[msgrc]})
		fmt.Println(string(out))
		return 0
	}
}
