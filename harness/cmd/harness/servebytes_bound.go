package main

// servebytes_bound.go — serve_bytes cases in which a token travels under a CID that is NOT the dag-cbor / sha2-256 CIDv1
// of its bytes (coq/ServerBytes.v reads such a block through LinkIntegrity.token_at: a delegation without fields, as
// delegation.Data() -> block.Decode does).  go-car accepts every self-consistent CID, so the request reaches the server:
//
//   inv            the first invocation of the request under a raw-codec / CIDv0 / dag-json CID over the same multihash,
//                  the execute list naming that CID
//   inv-both       the genuine request plus a relabelled copy of the first invocation, executed as a further entry
//   proof          an invocation RE-ISSUED (same issuer key, audience, capabilities) whose first proof link is the
//                  relabelled CID of the proof, next to the genuine invocations; the proof's bytes travel under both CIDs
//   proof-sibling  a proof's block carried only under the relabelled CID while the invocation cites the true link
//
// (a block whose bytes are ANOTHER token's bytes under a well-formed token's CID cannot pass the CAR reader's hash check.)
// The body is assembled by hand (blocks of the recorded request, a new message root), sent to a fresh server of the same
// world, and the answer is recorded exactly as for the recorded request.

import (
	"bytes"
	"fmt"
	"io"
	"sort"
	"strings"
	"time"

	"github.com/ipld/go-ipld-prime/datamodel"
	"github.com/storacha/go-ucanto/core/car"
	"github.com/storacha/go-ucanto/core/delegation"
	"github.com/storacha/go-ucanto/core/ipld"
	"github.com/storacha/go-ucanto/core/ipld/block"
	"github.com/storacha/go-ucanto/core/ipld/codec/cbor"
	"github.com/storacha/go-ucanto/core/ipld/hash/sha256"
	"github.com/storacha/go-ucanto/core/message"
	mdm "github.com/storacha/go-ucanto/core/message/datamodel"
	"github.com/storacha/go-ucanto/transport"
	tcar "github.com/storacha/go-ucanto/transport/car"
	uhttp "github.com/storacha/go-ucanto/transport/http"
	"github.com/storacha/go-ucanto/ucan"
)

var sbRelVariants = []string{"inv", "proof", "inv-both", "proof-sibling"}
var sbRelKinds = []string{"raw", "dag-pb-v0", "dag-json"}
var sbRelSeen = 0

// world ids of the relabelled cases: variant number * sbRelIDStep + the batch's id (lib/props/_servebytes.py reads it back)
const sbRelIDStep = 10000000

type nodeCav struct{ n datamodel.Node }

func (c nodeCav) ToIPLD() (datamodel.Node, error) { return c.n, nil }

// sbReissue: the invocation `d` issued again by the same key with the same audience / capabilities / expiry, its proofs
// replaced by `prfs`
func sbReissue(w *World, bt *Built, prfs []ipld.Link) delegation.Delegation {
	d := bt.Dlg
	var names []string
	for n := range w.Cast.byName {
		names = append(names, n)
	}
	sort.Strings(names)
	var signer ucan.Signer
	for pass := 0; pass < 2 && signer == nil; pass++ {
		for _, n := range names {
			p := w.Cast.byName[n]
			if p.Signer == nil || p.DID.String() != d.Issuer().DID().String() {
				continue
			}
			if pass == 0 && (bt.Signer <= 0 || p.KeyID != bt.Signer) {
				continue
			}
			signer = p.Signer
			break
		}
	}
	if signer == nil {
		return nil
	}
	var caps []ucan.Capability[ucan.CaveatBuilder]
	for _, c := range d.Capabilities() {
		n := nbNode(c.Nb())
		if n == nil {
			return nil
		}
		caps = append(caps, ucan.NewCapability[ucan.CaveatBuilder](c.Can(), c.With(), nodeCav{n}))
	}
	if len(caps) == 0 {
		return nil
	}
	opts := []delegation.Option{delegation.WithNonce("relabelled-proof")}
	if e := d.Expiration(); e != nil {
		opts = append(opts, delegation.WithExpiration(int(*e)))
	} else {
		opts = append(opts, delegation.WithNoExpiration())
	}
	if nbf := int(d.NotBefore()); nbf != 0 {
		opts = append(opts, delegation.WithNotBefore(nbf))
	}
	var ps []delegation.Proof
	for _, l := range prfs {
		ps = append(ps, delegation.FromLink(l))
	}
	opts = append(opts, delegation.WithProof(ps...))
	var nd delegation.Delegation
	if p := recovered(func() {
		x, err := delegation.Delegate(signer, d.Audience(), caps, opts...)
		if err == nil {
			nd = x
		}
	}); p != nil {
		return nil
	}
	return nd
}

func sbRelabelled(b *Batch, names []string, ch *recChannel) {
	if len(names) == 0 || ch == nil || len(ch.body) == 0 {
		return
	}
	w := b.W
	idx := sbRelSeen
	sbRelSeen++
	variant := sbRelVariants[idx%len(sbRelVariants)]
	kind := sbRelKinds[(idx/len(sbRelVariants)+idx)%len(sbRelKinds)]
	roots, it, err := car.Decode(bytes.NewReader(ch.body))
	if err != nil || len(roots) != 1 {
		return
	}
	var blks []ipld.Block
	for blk, err := range it {
		if err != nil {
			return
		}
		if blk.Link().String() != roots[0].String() {
			blks = append(blks, blk)
		}
	}
	find := func(l ipld.Link) ipld.Block {
		for _, x := range blks {
			if x.Link().String() == l.String() {
				return x
			}
		}
		return nil
	}
	var exec []ipld.Link
	for _, n := range names {
		exec = append(exec, w.built[n].Dlg.Link())
	}
	// the proof variants need an invocation of the request one of whose proofs travels in the body
	var pInv *Built
	var pBlk ipld.Block
	for _, n := range names {
		bt := w.built[n]
		var prfs []ipld.Link
		if p := recovered(func() { prfs = bt.Dlg.Proofs() }); p != nil || len(prfs) == 0 {
			continue
		}
		if x := find(prfs[0]); x != nil {
			pInv, pBlk = bt, x
			break
		}
	}
	if pInv == nil && variant == "proof" {
		variant = "inv"
	}
	if pInv == nil && variant == "proof-sibling" {
		variant = "inv-both"
	}
	var extra []delegation.Delegation
	out := append([]ipld.Block{}, blks...)
	switch variant {
	case "inv", "inv-both":
		target := find(exec[0])
		if target == nil {
			return
		}
		rl := relabel(exec[0], kind)
		if variant == "inv" {
			for i, x := range out {
				if x.Link().String() == exec[0].String() {
					out[i] = block.NewBlock(rl, x.Bytes())
				}
			}
			for i, l := range exec {
				if l.String() == exec[0].String() {
					exec[i] = rl
				}
			}
		} else {
			out = append(out, block.NewBlock(rl, target.Bytes()))
			exec = append(exec, rl)
		}
	case "proof":
		prfs := pInv.Dlg.Proofs()
		np := append([]ipld.Link{relabel(prfs[0], kind)}, prfs[1:]...)
		nd := sbReissue(w, pInv, np)
		if nd == nil {
			sbStats["relabelled_skipped_no_signer"]++
			return
		}
		out = append(out, block.NewBlock(np[0], pBlk.Bytes()), nd.Root())
		exec = append(exec, nd.Link())
		extra = append(extra, nd)
	case "proof-sibling":
		rl := relabel(pBlk.Link(), kind)
		for i, x := range out {
			if x.Link().String() == pBlk.Link().String() {
				out[i] = block.NewBlock(rl, x.Bytes())
			}
		}
		w.lidStr(rl.String())
	}
	root, err := block.Encode(&mdm.AgentMessageModel{UcantoMessage7: &mdm.DataModel{Execute: exec}}, mdm.Type(), cbor.Codec, sha256.Hasher)
	if err != nil {
		return
	}
	out = append(out, root)
	body, err := io.ReadAll(car.Encode([]ipld.Link{root.Link()}, func(yield func(ipld.Block, error) bool) {
		for _, x := range out {
			if !yield(x, nil) {
				return
			}
		}
	}))
	if err != nil {
		return
	}
	for _, l := range exec {
		w.lidStr(l.String())
	}
	// a fresh server of the same world answers the body
	obs := &BatchObs{}
	if p := recovered(func() {
		srv, err := b.newServer(obs)
		if err != nil {
			obs.ExecErr = "server: " + err.Error()
			return
		}
		type answer struct {
			msg message.AgentMessage
			err error
		}
		resc := make(chan answer, 1)
		go func() {
			var res transport.HTTPResponse
			res, err := srv.Request(uhttp.NewHTTPRequest(bytes.NewReader(body), ch.hdr.Clone()))
			if err != nil {
				resc <- answer{nil, err}
				return
			}
			m, err := tcar.NewCAROutboundCodec().Decode(res)
			resc <- answer{m, err}
		}()
		var ans answer
		select {
		case ans = <-resc:
		case <-time.After(hangTimeout()):
			hangs.Add(1)
			obs.ExecErr = "hang: the server did not answer in time"
			return
		}
		if ans.err != nil {
			obs.ExecErr = ans.err.Error()
			return
		}
		rblocks := map[string][]byte{}
		for blk, err := range ans.msg.Blocks() {
			if err == nil {
				rblocks[blk.Link().String()] = blk.Bytes()
			}
		}
		seen := map[string]bool{}
		for _, l := range exec {
			ro := rcptObs{Inv: l.String()}
			rl, found := ans.msg.Get(l)
			if found && rl != nil {
				ro.Found = true
				ro.Rcpt = rl.String()
				if bb, ok := rblocks[rl.String()]; ok {
					ro.Class, ro.Ran, ro.Issuer, ro.Decoded = decodeReceipt(bb)
					ro.Forks, ro.Join = receiptEffects(bb)
					if ro.Ran != "" {
						w.lidStr(ro.Ran)
					}
				} else {
					ro.Class = "missing-block"
				}
				seen[rl.String()] = true
			}
			obs.Rcpts = append(obs.Rcpts, ro)
		}
		obs.NReceipts = len(seen)
	}); p != nil {
		sbStats["relabelled_panics"]++
		return
	}
	if strings.HasPrefix(obs.ExecErr, "hang") {
		sbStats["relabelled_skipped"]++
		return
	}
	vn := 0
	for i, v := range sbRelVariants {
		if v == variant {
			vn = i + 1
		}
	}
	id := vn*sbRelIDStep + w.ID
	bcase := b.CoqFor(names, obs) // within serveBytesHook (sbBusy): no recursion
	bcase = strings.Replace(bcase, fmt.Sprintf("wc_id := %d;", w.ID), fmt.Sprintf("wc_id := %d;", id), 1)
	caseStr, dids, why := sbRender(b, body, bcase, extra)
	if why != "" {
		sbStats["relabelled_"+why]++
		return
	}
	sbEmit(id, caseStr, dids, obs, "relabelled:"+variant+":"+kind)
}
