package main

// gen_c13.go — C13: messages and delegation archives read back unchanged.

import (
	"sync"
	"bytes"
	"crypto/sha256"
	"fmt"
	rdm "github.com/storacha/go-ucanto/core/receipt/datamodel"
	"io"
	"math/rand"
	"strings"

	"github.com/ipfs/go-cid"
	ipldprime "github.com/ipld/go-ipld-prime"
	"github.com/ipld/go-ipld-prime/codec/dagcbor"
	"github.com/ipld/go-ipld-prime/datamodel"
	"github.com/ipld/go-ipld-prime/node/bindnode"
	ipldschema "github.com/ipld/go-ipld-prime/schema"
	cidlink "github.com/ipld/go-ipld-prime/linking/cid"
	mh "github.com/multiformats/go-multihash"
	ucar "github.com/storacha/go-ucanto/core/car"
	"github.com/storacha/go-ucanto/core/dag/blockstore"
	"github.com/storacha/go-ucanto/core/delegation"
	"github.com/storacha/go-ucanto/core/invocation"
	"github.com/storacha/go-ucanto/core/invocation/ran"
	"github.com/storacha/go-ucanto/core/ipld"
	"github.com/storacha/go-ucanto/core/ipld/block"
	"github.com/storacha/go-ucanto/core/message"
	"github.com/storacha/go-ucanto/core/receipt"
	"github.com/storacha/go-ucanto/core/receipt/fx"
	"github.com/storacha/go-ucanto/core/result"
	"github.com/storacha/go-ucanto/core/result/ok"
	"github.com/storacha/go-ucanto/transport"
	"github.com/storacha/go-ucanto/transport/car/request"
	"github.com/storacha/go-ucanto/transport/car/response"
	thttp "github.com/storacha/go-ucanto/transport/http"
	"github.com/storacha/go-ucanto/ucan"
)

// a delegation as built, with the structure the model needs
type dnode struct {
	d        delegation.Delegation
	inline   []*dnode
	linkonly []*dnode
	attached []ipld.Block
}

type linkTable struct {
	ids map[string]int
}

func (t *linkTable) id(l ipld.Link) int {
	k := l.String()
	if v, ok := t.ids[k]; ok {
		return v
	}
	t.ids[k] = len(t.ids) + 1
	return t.ids[k]
}

func (t *linkTable) tree(n *dnode) string {
	var ins []string
	for _, c := range n.inline {
		ins = append(ins, t.tree(c))
	}
	var at []string
	for _, b := range n.attached {
		at = append(at, fmt.Sprintf("(%d, [])", t.id(b.Link())))
	}
	return fmt.Sprintf("(DNode (%d, []) [%s] [%s])", t.id(n.d.Link()), strings.Join(ins, "; "), strings.Join(at, "; "))
}

func (t *linkTable) seq(it func(func(ipld.Block, error) bool)) (string, int, bool) {
	var ids []string
	okk := true
	n := 0
	for b, err := range it {
		if err != nil {
			okk = false
			continue
		}
		ids = append(ids, fmt.Sprint(t.id(b.Link())))
		n++
	}
	return "[" + strings.Join(ids, "; ") + "]", n, okk
}

func mustSumRaw(digest []byte) mh.Multihash {
	d, _ := mh.Encode(digest, mh.SHA2_256)
	return d
}

func mustSum(data []byte) mh.Multihash {
	d, _ := mh.Sum(data, mh.SHA2_256, -1)
	return d
}

func randBlock(r *rand.Rand) ipld.Block {
	data := make([]byte, r.Intn(41)) // one in 41 has an empty payload: a complete, valid block
	r.Read(data)
	if r.Intn(6) == 0 {
		// a small value inlined in its own CID (identity multihash): still a block that must travel
		d, _ := mh.Sum(data, mh.IDENTITY, -1)
		return block.NewBlock(cidlink.Link{Cid: cid.NewCidV1(0x55, d)}, data)
	}
	d, _ := mh.Sum(data, mh.SHA2_256, -1)
	return block.NewBlock(cidlink.Link{Cid: cid.NewCidV1(0x55, d)}, data)
}

// randTree builds a random delegation DAG bottom-up; `pool` lets sub-delegations be shared
func randTree(r *rand.Rand, cast *Cast, depth int, pool *[]*dnode, far int, nonce *int) *dnode {
	n := &dnode{}
	var prfs []delegation.Proof
	if depth > 0 {
		for k := r.Intn(3); k > 0; k-- {
			var c *dnode
			if len(*pool) > 0 && r.Intn(3) == 0 {
				c = (*pool)[r.Intn(len(*pool))] // shared proof
			} else {
				c = randTree(r, cast, depth-1, pool, far, nonce)
			}
			if r.Intn(4) == 0 {
				n.linkonly = append(n.linkonly, c)
				prfs = append(prfs, delegation.FromLink(c.d.Link()))
			} else {
				n.inline = append(n.inline, c)
				prfs = append(prfs, delegation.FromDelegation(c.d))
			}
		}
	}
	*nonce++
	iss := cast.Ed(fmt.Sprintf("k%d", r.Intn(4)))
	aud := cast.Ed(fmt.Sprintf("k%d", r.Intn(4)))
	opts := []delegation.Option{delegation.WithProof(prfs...), delegation.WithNonce(fmt.Sprint(*nonce))}
	switch r.Intn(3) {
	case 0:
		opts = append(opts, delegation.WithNoExpiration())
	default:
		opts = append(opts, delegation.WithExpiration(far+r.Intn(100)))
	}
	if r.Intn(4) == 0 {
		opts = append(opts, delegation.WithNotBefore(1+r.Intn(50)))
	}
	var nb ucan.CaveatBuilder = Cav{Max: i64(int64(*nonce))}
	if r.Intn(3) == 0 {
		// caveats handed over as a TYPED node whose type-level view differs from what is written (a renamed field, an
		// absent optional one): the issued delegation and its read-back copies must still show the same fields
		t := &c13TypedCav{Size: int64(*nonce)}
		if r.Intn(2) == 0 {
			s := fmt.Sprint("note", *nonce)
			t.Note = &s
		}
		nb = c13TypedNb{t}
	}
	d, err := delegation.Delegate(iss.Signer, aud.DID, []ucan.Capability[ucan.CaveatBuilder]{
		ucan.NewCapability[ucan.CaveatBuilder](pick(r, abilities), iss.DID.String(), nb)}, opts...)
	if err != nil {
		panic(err)
	}
	n.d = d
	for k := r.Intn(5) / 3; k > 0; k-- { // sometimes one attachment
		b := randBlock(r)
		if err := d.Attach(b); err == nil {
			n.attached = append(n.attached, b)
		}
	}
	*pool = append(*pool, n)
	return n
}

type c13TypedCav struct {
	Size int64
	Note *string
}

var c13TypedCavType = func() ipldschema.Type {
	ts, err := ipldprime.LoadSchemaBytes([]byte("type TypedCav struct {\n  size Int (rename \"sz\")\n  note optional String\n}\n"))
	if err != nil {
		panic(err)
	}
	return ts.TypeByName("TypedCav")
}()

type c13TypedNb struct{ v *c13TypedCav }

func (c c13TypedNb) ToIPLD() (datamodel.Node, error) { return bindnode.Wrap(c.v, c13TypedCavType), nil }

// sameFields: what the accessors of the two views report (capabilities with their caveats, window, nonce, facts, version)
func sameFields(a, b delegation.Delegation) string {
	ca, cb := a.Capabilities(), b.Capabilities()
	if len(ca) != len(cb) {
		return "number of capabilities differs"
	}
	for i := range ca {
		if ca[i].Can() != cb[i].Can() || ca[i].With() != cb[i].With() {
			return "capability differs"
		}
		// as DATA (entries, keys, values) — not through a codec, which would look at a typed node's representation
		na, nb := nbNode(ca[i].Nb()), nbNode(cb[i].Nb())
		if (na == nil) != (nb == nil) || (na != nil && !datamodel.DeepEqual(na, nb)) {
			return "caveats of a capability differ"
		}
	}
	ea, eb := a.Expiration(), b.Expiration()
	if (ea == nil) != (eb == nil) || (ea != nil && *ea != *eb) {
		return "expiration differs"
	}
	if a.NotBefore() != b.NotBefore() || a.Nonce() != b.Nonce() || a.Version() != b.Version() {
		return "not-before / nonce / version differs"
	}
	if len(a.Facts()) != len(b.Facts()) {
		return "facts differ"
	}
	if len(a.Proofs()) != len(b.Proofs()) {
		return "number of proofs differs"
	}
	for i := range a.Proofs() {
		if a.Proofs()[i].String() != b.Proofs()[i].String() {
			return "proof links differ"
		}
	}
	return ""
}

// sameDelegation: link, root bytes (hence every field and the signature) equal; embedded proofs transitively
func sameDelegation(orig *dnode, got delegation.Delegation, depth int) string {
	if got == nil {
		return "missing"
	}
	if r := sameFields(orig.d, got); r != "" {
		return r
	}
	if got.Link().String() != orig.d.Link().String() {
		return "link differs"
	}
	if !bytes.Equal(got.Root().Bytes(), orig.d.Root().Bytes()) {
		return "root bytes differ"
	}
	if !bytes.Equal(got.Signature().Bytes(), orig.d.Signature().Bytes()) {
		return "signature differs"
	}
	if got.Issuer().DID().String() != orig.d.Issuer().DID().String() || got.Audience().DID().String() != orig.d.Audience().DID().String() {
		return "principals differ"
	}
	br, err := blockstore.NewBlockReader(blockstore.WithBlocksIterator(got.Blocks()))
	if err != nil {
		return "blocks iterator error"
	}
	pv := delegation.NewProofsView(got.Proofs(), br)
	byLink := map[string]delegation.Proof{}
	for _, p := range pv {
		byLink[p.Link().String()] = p
	}
	for _, c := range orig.inline {
		p, ok := byLink[c.d.Link().String()]
		if !ok {
			return "proof link lost"
		}
		pd, isD := p.Delegation()
		if !isD {
			return fmt.Sprintf("embedded proof not viewable at depth %d", depth+1)
		}
		if r := sameDelegation(c, pd, depth+1); r != "" {
			return r
		}
	}
	for _, c := range orig.linkonly {
		if _, ok := byLink[c.d.Link().String()]; !ok {
			return "link-only proof link lost"
		}
	}
	for _, b := range orig.attached {
		if _, ok, _ := br.Get(b.Link()); !ok {
			return "attached block lost"
		}
	}
	return ""
}

func amsgCoqFromBytes(b []byte) (string, error) {
	n, err := ipldprime.Decode(b, dagcbor.Decode)
	if err != nil {
		return "", err
	}
	d, err := n.LookupByString("ucanto/message@7.0.0")
	if err != nil {
		return "", err
	}
	ex := "None"
	if e, err := d.LookupByString("execute"); err == nil {
		var ls []string
		for it := e.ListIterator(); !it.Done(); {
			_, l, _ := it.Next()
			lk, _ := l.AsLink()
			ls = append(ls, hx([]byte(lk.Binary())))
		}
		ex = "(Some [" + strings.Join(ls, "; ") + "])"
	}
	rp := "None"
	if e, err := d.LookupByString("report"); err == nil {
		var es []string
		for it := e.MapIterator(); !it.Done(); {
			k, v, _ := it.Next()
			ks, _ := k.AsString()
			lk, _ := v.AsLink()
			es = append(es, fmt.Sprintf("(%s, %s)", hxs(ks), hx([]byte(lk.Binary()))))
		}
		rp = "(Some [" + strings.Join(es, "; ") + "])"
	}
	return fmt.Sprintf("(mkMsg %s %s)", ex, rp), nil
}

func init() {
	gens["C13"] = func(o genOpts) error {
		nmsg, ndel := 150, 150
		if o.tier == "thorough" {
			nmsg, ndel = 4000, 4000
		}
		r := rand.New(rand.NewSource(o.seed))
		cast := newCast(o.seed * 17)
		service := cast.Ed("service")
		far := int(ucan.Now()) + 100000
		nonce := 0
		var direct []map[string]any
		nhist := 0
		var dcases, mcases, bcases, acases []string
		var samples []any
		shapes := map[string]int{}
		// ---- delegations: Blocks(), link = CID of root bytes, Archive/Extract, Format/Parse ----
		for i := 0; i < ndel; i++ {
			lt := &linkTable{ids: map[string]int{}}
			var pool []*dnode
			t := randTree(r, cast, r.Intn(5), &pool, far, &nonce)
			tree := lt.tree(t)
			seq, nb, okIt := lt.seq(t.d.Blocks())
			if !okIt {
				direct = append(direct, map[string]any{"delegation": i, "what": "Blocks() yielded an error"})
			}
			dcases = append(dcases, fmt.Sprintf("(%d, %s, %s)", i, tree, seq))
			shapes[fmt.Sprintf("inline=%d linkonly=%d attached=%d blocks=%d", len(t.inline), len(t.linkonly), len(t.attached), nb)]++
			// link = CIDv1(dag-cbor, sha2-256(root bytes))
			sum := sha256.Sum256(t.d.Root().Bytes())
			d, _ := mh.Encode(sum[:], mh.SHA2_256)
			if cid.NewCidV1(0x71, d).String() != t.d.Link().String() {
				direct = append(direct, map[string]any{"delegation": i, "what": "link is not the CID of the root block bytes"})
			}
			// Archive / Extract
			ab, err := io.ReadAll(t.d.Archive())
			if err != nil {
				direct = append(direct, map[string]any{"delegation": i, "what": "Archive failed: " + err.Error()})
				continue
			}
			ex, err := delegation.Extract(ab)
			if err != nil {
				direct = append(direct, map[string]any{"delegation": i, "what": "Extract(Archive(d)) failed: " + err.Error()})
			} else if why := sameDelegation(t, ex, 0); why != "" {
				direct = append(direct, map[string]any{"delegation": i, "what": "Extract(Archive(d)) differs: " + why})
			} else if why := func() string {
				// what Extract returned is a value of its own: the caller's buffer is reused for the next archive (here:
				// overwritten) and the delegation read from it stays what it was
				buf := append([]byte{}, ab...)
				ex3, err := delegation.Extract(buf)
				if err != nil {
					return "Extract of a copy failed: " + err.Error()
				}
				for k := range buf {
					buf[k] = 0xAA
				}
				if sum := sha256.Sum256(ex3.Root().Bytes()); ex3.Link().String() != cid.NewCidV1(0x71, mustSumRaw(sum[:])).String() {
					return "link is no longer the CID of the root block bytes"
				}
				return sameDelegation(t, ex3, 0)
			}(); why != "" {
				direct = append(direct, map[string]any{"delegation": i, "what": "Extract(buf) changed when buf was reused afterwards: " + why})
			} else {
				// second generation: what was read back is archived and read again
				ab2, err := io.ReadAll(ex.Archive())
				if err != nil {
					direct = append(direct, map[string]any{"delegation": i, "what": "Archive of an extracted delegation failed: " + err.Error()})
				} else if ex2, err := delegation.Extract(ab2); err != nil {
					direct = append(direct, map[string]any{"delegation": i, "what": "Extract(Archive(Extract(Archive(d)))) failed: " + err.Error()})
				} else if why := sameDelegation(t, ex2, 0); why != "" {
					direct = append(direct, map[string]any{"delegation": i, "what": "Extract(Archive(Extract(Archive(d)))) differs: " + why})
				}
			}
			// an archive that carries blocks more than once (as a store that does not de-duplicate writes them)
			if roots, blks, err := carDecodeAll(ab); err == nil && len(blks) > 0 {
				dup := append([]ipld.Block{blks[r.Intn(len(blks))]}, blks...)
				dup = append(dup, blks...)
				if exd, err := delegation.Extract(carBytes(roots, dup)); err != nil {
					direct = append(direct, map[string]any{"delegation": i, "what": "Extract of an archive with repeated blocks failed: " + err.Error()})
				} else if why := sameDelegation(t, exd, 0); why != "" {
					direct = append(direct, map[string]any{"delegation": i, "what": "Extract of an archive with repeated blocks differs: " + why})
				}
			}
			// Format / Parse
			fs, err := delegation.Format(t.d)
			if err != nil {
				direct = append(direct, map[string]any{"delegation": i, "what": "Format failed: " + err.Error()})
			} else {
				pd, err := delegation.Parse(fs)
				if err != nil {
					direct = append(direct, map[string]any{"delegation": i, "what": "Parse(Format(d)) failed: " + err.Error()})
				} else if why := sameDelegation(t, pd, 0); why != "" {
					direct = append(direct, map[string]any{"delegation": i, "what": "Parse(Format(d)) differs: " + why})
				} else if fs2, err := delegation.Format(pd); err != nil {
					direct = append(direct, map[string]any{"delegation": i, "what": "Format of a parsed delegation failed: " + err.Error()})
				} else if pd2, err := delegation.Parse(fs2); err != nil {
					direct = append(direct, map[string]any{"delegation": i, "what": "Parse(Format(Parse(Format(d)))) failed: " + err.Error()})
				} else if why := sameDelegation(t, pd2, 0); why != "" {
					direct = append(direct, map[string]any{"delegation": i, "what": "Parse(Format(Parse(Format(d)))) differs: " + why})
				}
			}
			// history on one delegation object: archive, THEN attach a block, archive again — the new archive carries it
			if i%3 == 0 {
				extra := randBlock(r)
				if i%2 == 0 {
					extra = block.NewBlock(cidlink.Link{Cid: cid.NewCidV1(0x55, mustSum(nil))}, []byte{}) // empty payload
				}
				if err := t.d.Attach(extra); err == nil {
					for _, how := range []string{"Archive/Extract", "Format/Parse"} {
						var got delegation.Delegation
						var err error
						if how == "Archive/Extract" {
							var ab3 []byte
							ab3, err = io.ReadAll(t.d.Archive())
							if err == nil {
								got, err = delegation.Extract(ab3)
							}
						} else {
							var fs3 string
							fs3, err = delegation.Format(t.d)
							if err == nil {
								got, err = delegation.Parse(fs3)
							}
						}
						if err != nil {
							direct = append(direct, map[string]any{"delegation": i, "what": how + " after a later Attach failed: " + err.Error()})
							continue
						}
						found := false
						for b, err := range got.Blocks() {
							if err == nil && b.Link().String() == extra.Link().String() && bytes.Equal(b.Bytes(), extra.Bytes()) {
								found = true
							}
						}
						if !found {
							direct = append(direct, map[string]any{"delegation": i, "what": how + " after a later Attach: the block attached after the first archive is missing"})
						}
					}
				}
			}
			// the archive's variant (root) block
			if roots, blks, err := carDecodeAll(ab); err == nil && len(roots) == 1 {
				for _, b := range blks {
					if b.Link().String() == roots[0].String() {
						acases = append(acases, fmt.Sprintf("(%d, %s, %s)", i, hx([]byte(t.d.Link().Binary())), hx(b.Bytes())))
					}
				}
			}
			if i < 3 {
				samples = append(samples, map[string]any{"delegation": i, "blocks": nb, "inline_proofs": len(t.inline), "link_only_proofs": len(t.linkonly), "attached": len(t.attached)})
			}
		}
		// ---- messages ----
		for i := 0; i < nmsg; i++ {
			lt := &linkTable{ids: map[string]int{}}
			var pool []*dnode
			ninv := r.Intn(7)
			var invNodes []*dnode
			var invs []invocation.Invocation
			for k := 0; k < ninv; k++ {
				// an invocation = a delegation with one capability and proofs from the (shared) pool
				n := &dnode{}
				var prfs []delegation.Proof
				for p := r.Intn(3); p > 0; p-- {
					var c *dnode
					if len(pool) > 0 && r.Intn(2) == 0 {
						c = pool[r.Intn(len(pool))]
					} else {
						c = randTree(r, cast, r.Intn(4), &pool, far, &nonce)
					}
					if r.Intn(5) == 0 {
						n.linkonly = append(n.linkonly, c)
						prfs = append(prfs, delegation.FromLink(c.d.Link()))
					} else {
						n.inline = append(n.inline, c)
						prfs = append(prfs, delegation.FromDelegation(c.d))
					}
				}
				nonce++
				iss := cast.Ed(fmt.Sprintf("k%d", r.Intn(4)))
				inv, err := invocation.Invoke(iss.Signer, service.DID, ucan.NewCapability[ucan.CaveatBuilder]("store/add", iss.DID.String(), Cav{Max: i64(int64(nonce))}),
					delegation.WithProof(prfs...), delegation.WithExpiration(far), delegation.WithNonce(fmt.Sprint(nonce)))
				if err != nil {
					return err
				}
				n.d = inv
				invNodes = append(invNodes, n)
				invs = append(invs, inv)
			}
			// an earlier invocation that carries the ROOT block of a later one as an attachment (a pipelined follow-up
			// referring to the task it follows): the later one must still travel with its whole proof chain
			if len(invNodes) >= 2 && r.Intn(3) == 0 {
				a := r.Intn(len(invNodes) - 1)
				b := a + 1 + r.Intn(len(invNodes)-a-1)
				if err := invNodes[a].d.Attach(invNodes[b].d.Root()); err == nil {
					invNodes[a].attached = append(invNodes[a].attached, invNodes[b].d.Root())
				}
			}
			nrc := r.Intn(7)
			var rcpts []receipt.AnyReceipt
			var rcptBlocks []string
			type rinfo struct {
				ran, root string
				node      *dnode // the invocation embedded as `ran`, when it is
			}
			var rinfos []rinfo
			type fxInfo struct {
				root  string
				nodes []*dnode // the invocations embedded as effects (forks in order, then the join)
			}
			var fxNodes []fxInfo
			for k := 0; k < nrc; k++ {
				var rn ran.Ran
				var ranLink ipld.Link
				var ranNode *dnode
				if len(invs) > 0 && r.Intn(3) != 0 {
					pick := r.Intn(len(invs))
					iv := invs[pick]
					ranLink = iv.Link()
					if r.Intn(2) == 0 {
						rn = ran.FromInvocation(iv)
						ranNode = invNodes[pick]
					} else {
						rn = ran.FromLink(iv.Link())
					}
				} else {
					ranLink = fakeLink(88000 + nonce + k)
					rn = ran.FromLink(ranLink)
				}
				// effects: forks and a join, as bare links or as embedded invocations (each with its own proofs and an attachment),
				// in every order — an embedded one travels with the receipt whatever precedes it
				var ropts []receipt.Option
				var fxn []*dnode
				if r.Intn(2) == 0 {
					mkFx := func() fx.Effect {
						if r.Intn(2) == 0 {
							return fx.FromLink(fakeLink(99000 + nonce*7 + r.Intn(7)))
						}
						n := &dnode{}
						c := randTree(r, cast, r.Intn(3), &pool, far, &nonce)
						n.inline = append(n.inline, c)
						nonce++
						iss := cast.Ed(fmt.Sprintf("k%d", r.Intn(4)))
						fi, err := invocation.Invoke(iss.Signer, service.DID, ucan.NewCapability[ucan.CaveatBuilder]("store/next", iss.DID.String(), Cav{Max: i64(int64(nonce))}),
							delegation.WithProof(delegation.FromDelegation(c.d)), delegation.WithExpiration(far), delegation.WithNonce(fmt.Sprint(nonce)))
						if err != nil {
							panic(err)
						}
						if r.Intn(2) == 0 {
							b := randBlock(r)
							if fi.Attach(b) == nil {
								n.attached = append(n.attached, b)
							}
						}
						n.d = fi
						fxn = append(fxn, n)
						return fx.FromInvocation(fi)
					}
					var forks []fx.Effect
					for nf := r.Intn(4); nf > 0; nf-- {
						forks = append(forks, mkFx())
					}
					if len(forks) > 0 {
						ropts = append(ropts, receipt.WithFork(forks...))
					}
					if r.Intn(3) == 0 {
						ropts = append(ropts, receipt.WithJoin(mkFx()))
					}
				}
				rc, err := receipt.Issue(service.Signer, result.Ok[ok.Unit, ipld.Builder](ok.Unit{}), rn, ropts...)
				if err != nil {
					return err
				}
				rcpts = append(rcpts, rc)
				fxNodes = append(fxNodes, fxInfo{rc.Root().Link().String(), fxn})
				var bl []string
				for b, err := range rc.Blocks() {
					if err == nil {
						bl = append(bl, fmt.Sprintf("(%d, [])", lt.id(b.Link())))
					}
				}
				rcptBlocks = append(rcptBlocks, "["+strings.Join(bl, "; ")+"]")
				rinfos = append(rinfos, rinfo{ranLink.String(), rc.Root().Link().String(), ranNode})
			}
			if i%3 == 2 {
				// a RESPONSE: receipts only — an invocation embedded as `ran` travels with the receipt alone
				invs, invNodes = nil, nil
			}
			msg, err := message.Build(invs, rcpts)
			if err != nil {
				direct = append(direct, map[string]any{"message": i, "what": "message.Build failed: " + err.Error()})
				continue
			}
			var trees []string
			for _, n := range invNodes {
				trees = append(trees, lt.tree(n))
			}
			seq, nb, _ := lt.seq(msg.Blocks())
			bcases = append(bcases, fmt.Sprintf("(%d, [%s], [%s], (%d, []), %s)", i, strings.Join(trees, "; "), strings.Join(rcptBlocks, "; "), lt.id(msg.Root().Link()), seq))
			mt, err := amsgCoqFromBytes(msg.Root().Bytes())
			if err != nil {
				return err
			}
			mcases = append(mcases, fmt.Sprintf("(%d, %s, %s)", i, mt, hx(msg.Root().Bytes())))
			// through both codecs
			for _, codec := range []string{"request", "response"} {
				var dmsg message.AgentMessage
				var derr error
				if codec == "request" {
					req, _ := request.Encode(msg)
					dmsg, derr = request.Decode(req)
				} else {
					res, _ := response.Encode(msg)
					var hr transport.HTTPResponse = res
					dmsg, derr = response.Decode(hr)
				}
				if derr != nil {
					direct = append(direct, map[string]any{"message": i, "codec": codec, "what": "decode failed: " + derr.Error()})
					continue
				}
				if len(dmsg.Invocations()) != len(invs) {
					direct = append(direct, map[string]any{"message": i, "codec": codec, "what": "number of invocation links differs"})
					continue
				}
				for k, l := range dmsg.Invocations() {
					if l.String() != invs[k].Link().String() {
						direct = append(direct, map[string]any{"message": i, "codec": codec, "what": "invocation links differ / reordered"})
					}
				}
				// report: first receipt listed for a ran wins (Build keeps the first)
				want := map[string]string{}
				for _, ri := range rinfos {
					if _, ok := want[ri.ran]; !ok {
						want[ri.ran] = ri.root
					}
				}
				for rk, rv := range want {
					lk, _ := cid.Decode(rk)
					got, ok := dmsg.Get(cidlink.Link{Cid: lk})
					if !ok || got.String() != rv {
						direct = append(direct, map[string]any{"message": i, "codec": codec, "what": "invocation -> receipt mapping differs after transport"})
					}
				}
				if len(dmsg.Receipts()) != len(want) {
					direct = append(direct, map[string]any{"message": i, "codec": codec, "what": fmt.Sprintf("number of report entries %d, want %d", len(dmsg.Receipts()), len(want))})
				}
				seq2, nb2, okIt := lt.seq(dmsg.Blocks())
				if !okIt || seq2 != seq || nb2 != nb {
					direct = append(direct, map[string]any{"message": i, "codec": codec, "what": "block sequence differs after transport"})
				}
				br, _ := blockstore.NewBlockReader(blockstore.WithBlocksIterator(dmsg.Blocks()))
				// a receipt that embeds the invocation it answers carries that invocation's whole proof chain and attachments
				for _, ri := range rinfos {
					rl, _ := cid.Decode(ri.root)
					// EVERY receipt of the message — also one that embeds nothing (ran by link, no proofs, no effects) — is
					// readable from the blocks that travelled
					rcv, err := receipt.NewReceipt[ipld.Node, ipld.Node](cidlink.Link{Cid: rl}, br, rdm.TypeSystem().TypeByName("Receipt"))
					if err != nil {
						direct = append(direct, map[string]any{"message": i, "codec": codec, "what": "receipt not readable after transport: " + err.Error()})
						continue
					}
					if ri.node == nil {
						continue
					}
					if rcv.Ran() == nil {
						direct = append(direct, map[string]any{"message": i, "codec": codec, "what": "receipt's embedded invocation lost after transport"})
						continue
					}
					if why := sameDelegation(ri.node, rcv.Ran(), 0); why != "" {
						direct = append(direct, map[string]any{"message": i, "codec": codec, "what": "receipt's embedded invocation differs after transport: " + why})
					}
				}
				for _, fi := range fxNodes {
					if len(fi.nodes) == 0 {
						continue
					}
					rl, _ := cid.Decode(fi.root)
					rcv, err := receipt.NewReceipt[ipld.Node, ipld.Node](cidlink.Link{Cid: rl}, br, rdm.TypeSystem().TypeByName("Receipt"))
					if err != nil {
						direct = append(direct, map[string]any{"message": i, "codec": codec, "what": "receipt with effects not readable after transport: " + err.Error()})
						continue
					}
					effs := append([]fx.Effect{}, rcv.Fx().Fork()...)
					if j := rcv.Fx().Join(); j != (fx.Effect{}) {
						effs = append(effs, j)
					}
					byLink := map[string]fx.Effect{}
					for _, e := range effs {
						byLink[e.Link().String()] = e
					}
					for _, n := range fi.nodes {
						e, ok := byLink[n.d.Link().String()]
						if !ok {
							direct = append(direct, map[string]any{"message": i, "codec": codec, "what": "receipt's effect link lost after transport"})
							continue
						}
						ei, ok := e.Invocation()
						if !ok {
							direct = append(direct, map[string]any{"message": i, "codec": codec, "what": "invocation embedded as an effect of a receipt lost after transport"})
							continue
						}
						if why := sameDelegation(n, ei, 0); why != "" {
							direct = append(direct, map[string]any{"message": i, "codec": codec, "what": "invocation embedded as an effect differs after transport: " + why})
						}
					}
				}
				for k, n := range invNodes {
					v, err := invocation.NewInvocationView(dmsg.Invocations()[k], br)
					if err != nil {
						direct = append(direct, map[string]any{"message": i, "codec": codec, "what": "invocation not viewable after transport: " + err.Error()})
						continue
					}
					if why := sameDelegation(n, v, 0); why != "" {
						direct = append(direct, map[string]any{"message": i, "codec": codec, "what": "invocation differs after transport: " + why})
					}
				}
			}
			shapes[fmt.Sprintf("msg invs=%d rcpts=%d blocks=%d", ninv, nrc, nb)]++
			if i < 3 {
				samples = append(samples, map[string]any{"message": i, "invocations": ninv, "receipts": nrc, "blocks": nb})
			}
		}
		// ---- the same token seen in two messages with different closures: in the first its own proof travels only as a
		// link, in the second inline — what is read from the second message must be the second message's
		for i := 0; i < 6; i++ {
			root := cast.Ed(fmt.Sprintf("hq%d", i))
			mid := cast.Ed(fmt.Sprintf("hp%d", i))
			leaf := cast.Ed(fmt.Sprintf("hl%d", i))
			mk := func(iss, aud *Prin, nonce string, prf ...delegation.Proof) delegation.Delegation {
				opts := []delegation.Option{delegation.WithExpiration(far), delegation.WithNonce(nonce)}
				if len(prf) > 0 {
					opts = append(opts, delegation.WithProof(prf...))
				}
				d, err := delegation.Delegate(iss.Signer, aud.DID, []ucan.Capability[ucan.CaveatBuilder]{
					ucan.NewCapability[ucan.CaveatBuilder]("store/add", root.DID.String(), Cav{})}, opts...)
				if err != nil {
					panic(err)
				}
				return d
			}
			q := mk(root, mid, fmt.Sprintf("hq-%d", i))
			pLink := mk(mid, leaf, fmt.Sprintf("hp-%d", i), delegation.FromLink(q.Link()))
			pFull := mk(mid, leaf, fmt.Sprintf("hp-%d", i), delegation.FromDelegation(q))
			if pLink.Link().String() != pFull.Link().String() {
				direct = append(direct, map[string]any{"message": -1, "what": "history: the same fields gave two different links (issuance is not deterministic)"})
				continue
			}
			for round, p := range []delegation.Delegation{pLink, pFull, pLink} {
				inv, err := invocation.Invoke(leaf.Signer, service.DID, ucan.NewCapability[ucan.CaveatBuilder]("store/add", root.DID.String(), Cav{}),
					delegation.WithExpiration(far), delegation.WithNonce(fmt.Sprintf("hi-%d-%d", i, round)), delegation.WithProof(delegation.FromDelegation(p)))
				if err != nil {
					return err
				}
				msg, err := message.Build([]invocation.Invocation{inv}, nil)
				if err != nil {
					return err
				}
				req, _ := request.Encode(msg)
				dmsg, err := request.Decode(req)
				if err != nil {
					direct = append(direct, map[string]any{"message": -1, "what": "history: decode failed: " + err.Error()})
					continue
				}
				br, _ := blockstore.NewBlockReader(blockstore.WithBlocksIterator(dmsg.Blocks()))
				v, err := invocation.NewInvocationView(dmsg.Invocations()[0], br)
				if err != nil {
					direct = append(direct, map[string]any{"message": -1, "what": "history: invocation not viewable: " + err.Error()})
					continue
				}
				// walk: invocation -> P -> Q
				gotQ := false
				for _, pprf := range delegation.NewProofsView(v.Proofs(), br) { // as the validator resolves proofs
					pv, ok := pprf.Delegation()
					if !ok {
						direct = append(direct, map[string]any{"message": -1, "what": "history: the inline proof of the invocation is not viewable"})
						continue
					}
					for _, qq := range delegation.NewProofsView(pv.Proofs(), br) {
						if _, ok := qq.Delegation(); ok {
							gotQ = true
						}
					}
					nq := 0
					for b, err := range pv.Blocks() {
						if err == nil && b.Link().String() == q.Link().String() {
							nq++
						}
					}
					if (nq > 0) != (round == 1) {
						direct = append(direct, map[string]any{"message": -1, "what": fmt.Sprintf("history: message %d of 3 (proof of the proof travels %s): Blocks() of the proof read from THIS message %s that block",
							round+1, []string{"as a link", "inline", "as a link"}[round], map[bool]string{true: "carries", false: "lacks"}[nq > 0])})
					}
				}
				if gotQ != (round == 1) {
					direct = append(direct, map[string]any{"message": -1, "what": fmt.Sprintf("history: message %d of 3 (proof of the proof travels %s): the proof's own proof is %s as a delegation",
						round+1, []string{"as a link", "inline", "as a link"}[round], map[bool]string{true: "viewable", false: "not viewable"}[gotQ])})
				}
				nhist++
			}
		}
		write := func(prefix, imports, typ, fn string, cases []string, shards int) error {
			per := (len(cases) + shards - 1) / shards
			if per == 0 {
				per = 1
			}
			for k := 0; k*per < len(cases); k++ {
				hi := (k + 1) * per
				if hi > len(cases) {
					hi = len(cases)
				}
				var sb strings.Builder
				sb.WriteString("From Ucanto Require Import Base Ipld Cbor Formats Blockstore MessageFormat Check_Formats.\nOpen Scope N_scope.\n")
				defs, body := internHex(coqList(cases[k*per : hi]))
				sb.WriteString(defs)
				fmt.Fprintf(&sb, "Definition cases : list (%s) := %s.\n", typ, body)
				fmt.Fprintf(&sb, "Definition M := Eval vm_compute in %s cases.\nPrint M.\n", fn)
				if err := writeFile(o.out, fmt.Sprintf("%s_%02d.v", prefix, k), sb.String()); err != nil {
					return err
				}
			}
			return nil
		}
		if err := write("cases_C13_dblocks", "", "N * dtree * list N", "check_dblocks_all", dcases, 4); err != nil {
			return err
		}
		if err := write("cases_C13_mblocks", "", "N * list dtree * list (list blk) * blk * list N", "check_mblocks_all", bcases, 4); err != nil {
			return err
		}
		if err := write("cases_C13_msg", "", "N * amsg * bstr", "check_messages", mcases, 4); err != nil {
			return err
		}
		if err := write("cases_C13_arch", "", "N * bstr * bstr", "check_archives", acases, 2); err != nil {
			return err
		}
		covDirect, covRuns := covC13(o.seed) // gen_cov.go: block store options, NewInvocation, Extract / Parse refusals, wrapped receipts
		direct = append(direct, covDirect...)
		// ---- tokens issued from several goroutines at once (a client worker pool): every one has the link of ITS root bytes
		{
			var wg sync.WaitGroup
			var cmu sync.Mutex
			bad := 0
			for g := 0; g < 16; g++ {
				wg.Add(1)
				go func(g int) {
					defer wg.Done()
					iss := cast.Ed(fmt.Sprintf("k%d", g%4))
					for k := 0; k < 150; k++ {
						var d delegation.Delegation
						var err error
						if p := recovered(func() {
							d, err = delegation.Delegate(iss.Signer, service.DID, []ucan.Capability[ucan.CaveatBuilder]{
								ucan.NewCapability[ucan.CaveatBuilder]("store/add", iss.DID.String(), Cav{Max: i64(int64(g*1000 + k))})},
								delegation.WithExpiration(far), delegation.WithNonce(fmt.Sprint("conc", g, k)))
						}); p != nil || err != nil || d == nil {
							cmu.Lock()
							bad++
							cmu.Unlock()
							continue
						}
						sum := sha256.Sum256(d.Root().Bytes())
						if d.Link().String() != cid.NewCidV1(0x71, mustSumRaw(sum[:])).String() {
							cmu.Lock()
							bad++
							cmu.Unlock()
						}
					}
				}(g)
			}
			wg.Wait()
			if bad > 0 {
				direct = append(direct, map[string]any{"delegation": "concurrent", "what": fmt.Sprintf("link is not the CID of the root block bytes (or issuing failed) for %d of 2400 delegations issued from 16 goroutines at once", bad)})
			}
		}
		// ---- LARGE messages (an invocation with one 5 MiB attachment; with six 1 MiB attachments): whatever a codec writes
		// it reads back — there is no size at which blocks stop coming back
		largeMsgs := 0
		for vi, sizes := range [][]int{{5 << 20}, {1 << 20, 1 << 20, 1 << 20, 1 << 20, 1 << 20, 1 << 20}} {
			iss := cast.Ed("k0")
			inv, err := invocation.Invoke(iss.Signer, service.DID, ucan.NewCapability[ucan.CaveatBuilder]("store/add", iss.DID.String(), Cav{}),
				delegation.WithExpiration(far), delegation.WithNonce(fmt.Sprint("large", vi)))
			if err != nil {
				return err
			}
			var att []ipld.Block
			for _, sz := range sizes {
				data := make([]byte, sz)
				r.Read(data)
				b := block.NewBlock(cidlink.Link{Cid: cid.NewCidV1(0x55, mustSum(data))}, data)
				if err := inv.Attach(b); err != nil {
					return err
				}
				att = append(att, b)
			}
			msg, err := message.Build([]invocation.Invocation{inv}, nil)
			if err != nil {
				direct = append(direct, map[string]any{"message": "large", "what": "message.Build failed on a large message: " + err.Error()})
				continue
			}
			largeMsgs++
			for _, codec := range []string{"request", "response"} {
				var dmsg message.AgentMessage
				var derr error
				if codec == "request" {
					req, _ := request.Encode(msg)
					dmsg, derr = request.Decode(req)
				} else {
					res, _ := response.Encode(msg)
					var hr transport.HTTPResponse = res
					dmsg, derr = response.Decode(hr)
				}
				label := fmt.Sprintf("large (%d attachment(s) of %d bytes)", len(sizes), sizes[0])
				if derr != nil {
					direct = append(direct, map[string]any{"message": label, "codec": codec, "what": "decode failed on a message the codec wrote itself: " + derr.Error()})
					continue
				}
				br, err := blockstore.NewBlockReader(blockstore.WithBlocksIterator(dmsg.Blocks()))
				if err != nil {
					direct = append(direct, map[string]any{"message": label, "codec": codec, "what": "blocks of the decoded message cannot be read: " + err.Error()})
					continue
				}
				if len(dmsg.Invocations()) != 1 || dmsg.Invocations()[0].String() != inv.Link().String() {
					direct = append(direct, map[string]any{"message": label, "codec": codec, "what": "invocation links differ"})
					continue
				}
				if _, ok, _ := br.Get(inv.Link()); !ok {
					direct = append(direct, map[string]any{"message": label, "codec": codec, "what": "invocation not viewable after transport: root block lost"})
				}
				for _, b := range att {
					if got, ok, _ := br.Get(b.Link()); !ok || !bytes.Equal(got.Bytes(), b.Bytes()) {
						direct = append(direct, map[string]any{"message": label, "codec": codec, "what": "attached block lost"})
						break
					}
				}
			}
		}
		return writeJSON(o.out, "stats.json", map[string]any{"delegations": ndel, "messages": nmsg, "large_messages": largeMsgs, "direct_violations": direct, "cov_direct_runs": covRuns,
			"distinct_shapes": len(shapes), "cross_message_history_steps": nhist, "samples": samples,
			"model_cases": map[string]int{"delegation_block_sequences": len(dcases), "message_block_sequences": len(bcases), "message_root_blocks": len(mcases), "archive_root_blocks": len(acases)}})
	}
}

func carDecodeAll(b []byte) ([]ipld.Link, []ipld.Block, error) {
	res := thttp.NewHTTPResponse(200, bytes.NewReader(b), nil)
	_ = res
	return carDecodeBytes(b)
}

func carDecodeBytes(b []byte) ([]ipld.Link, []ipld.Block, error) {
	roots, it, err := ucar.Decode(bytes.NewReader(b))
	if err != nil {
		return nil, nil, err
	}
	var blks []ipld.Block
	for blk, err := range it {
		if err != nil {
			return nil, nil, err
		}
		blks = append(blks, blk)
	}
	return roots, blks, nil
}
