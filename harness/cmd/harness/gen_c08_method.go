package main

// gen_c08_method.go — C08 with capabilities whose RESOURCE schema restricts the DID method (schema.DIDString(WithMethod(..)),
// as real services declare them).  Outside the Coq model (whose resource reader is the harness's own): a direct oracle —
// the handler of a capability runs only for a resource its schema accepts, and an otherwise valid invocation on a
// resource of another method gets an error receipt with no handler call.

import (
	"fmt"
	"sync"

	"github.com/storacha/go-ucanto/core/delegation"
	"github.com/storacha/go-ucanto/core/invocation"
	"github.com/storacha/go-ucanto/core/ipld"
	"github.com/storacha/go-ucanto/core/receipt/fx"
	"github.com/storacha/go-ucanto/core/result"
	"github.com/storacha/go-ucanto/core/result/ok"
	"github.com/storacha/go-ucanto/core/schema"
	"github.com/storacha/go-ucanto/did"
	"github.com/storacha/go-ucanto/principal"
	"github.com/storacha/go-ucanto/server"
	"github.com/storacha/go-ucanto/ucan"
	"github.com/storacha/go-ucanto/validator"
)

func canIssueOwned(owner *Prin, owned map[string]bool) validator.CanIssueFunc[any] {
	return func(c ucan.Capability[any], issuer did.DID) bool {
		return c.With() == issuer.String() || (owned[c.With()] && issuer == owner.DID)
	}
}

func c08MethodScenarios(seed int64) (direct []any, runs int) {
	cast := newCast(seed*99991 + 3)
	service := cast.Ed("service")
	far := int(ucan.Now()) + 1000000
	var mu sync.Mutex
	var calls []string
	mkProvider := func(can string, with schema.Reader[string, string]) server.ServiceMethod[ipld.Builder] {
		desc := validator.NewCapability[Cav](can, with, cavReader{}, nil)
		return server.Provide[Cav, ipld.Builder](desc, func(cap ucan.Capability[Cav], inv invocation.Invocation, ctx server.InvocationContext) (ipld.Builder, fx.Effects, error) {
			mu.Lock()
			calls = append(calls, cap.Can()+" "+cap.With())
			mu.Unlock()
			return ok.Unit{}, nil, nil
		})
	}
	methods := map[string]schema.Reader[string, string]{
		"on/key":    schema.DIDString(schema.WithMethod("key")),
		"on/mailto": schema.DIDString(schema.WithMethod("mailto")),
		"on/web":    schema.DIDString(schema.WithMethod("web")),
		"on/any":    schema.DIDString(),
	}
	var opts []server.Option
	for can, rd := range methods {
		opts = append(opts, server.WithServiceMethod(can, mkProvider(can, rd)))
	}
	opts = append(opts, server.WithErrorHandler(func(server.HandlerExecutionError[any]) {}))
	// the resource's owner table: whoever invokes owns the did:web / did:mailto resources of this scenario
	alice := cast.Ed("alice")
	owned := map[string]bool{"did:web:alice.example": true, "did:mailto:example.com:alice": true}
	srv, err := server.NewServer(service.Signer.(principal.Signer), append(opts, server.WithCanIssue(canIssueOwned(alice, owned)))...)
	if err != nil {
		return []any{map[string]any{"what": "resource-method capabilities: server does not build: " + err.Error()}}, 0
	}
	resources := map[string]string{"key": alice.DID.String(), "web": "did:web:alice.example", "mailto": "did:mailto:example.com:alice"}
	for can := range methods {
		for m, res := range resources {
			inv, err := invocation.Invoke(alice.Signer, service.DID, ucan.NewCapability[ucan.CaveatBuilder](can, res, Cav{}), delegation.WithExpiration(far))
			if err != nil {
				continue
			}
			mu.Lock()
			calls = nil
			mu.Unlock()
			var okRcpt bool
			var runErr error
			if p := recovered(func() {
				rc, err := srv.Run(inv)
				runErr = err
				if err == nil {
					_, x := result.Unwrap(rc.Out())
					okRcpt = x == nil
				}
			}); p != nil {
				direct = append(direct, map[string]any{"what": fmt.Sprintf("resource-method capabilities: Run panicked: %v", p), "can": can, "resource": res})
				continue
			}
			if runErr != nil {
				direct = append(direct, map[string]any{"what": "resource-method capabilities: Run failed: " + runErr.Error(), "can": can, "resource": res})
				continue
			}
			runs++
			want := can == "on/any" || can == "on/"+m
			mu.Lock()
			n := len(calls)
			mu.Unlock()
			if okRcpt != want || (n == 1) != want || n > 1 {
				direct = append(direct, map[string]any{"what": "resource-method capabilities: a capability declared on did:" + can[3:] + " resources and an invocation on a did:" + m + " resource",
					"can": can, "resource": res, "receipt_ok": okRcpt, "handler_calls": n, "expected_to_run": want})
			}
		}
	}
	return direct, runs
}
