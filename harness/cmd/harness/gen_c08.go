package main

import (
	"fmt"
	"math/rand"
)

type batchStats struct {
	Batches      int            `json:"batches"`
	Invocations  int            `json:"invocations"`
	Classes      map[string]int `json:"receipt_classes"`
	Calls        int            `json:"handler_calls"`
	ExecErrors   int            `json:"requests_failed_as_a_whole"`
	BySize       map[int]int    `json:"by_batch_size"`
	Duplicates   int            `json:"batches_with_duplicate_invocation"`
	Panics       []string       `json:"panic_list"`
	Signatures   map[string]int `json:"distinct_signatures"`
	Samples      []any          `json:"samples"`
	Inconsistent []any          `json:"direct_violations"`
	MethodRuns   int            `json:"resource_method_capability_runs"`
}

func newBatchStats() *batchStats {
	return &batchStats{Classes: map[string]int{}, BySize: map[int]int{}, Signatures: map[string]int{}}
}

func (st *batchStats) add(b *Batch, obs *BatchObs) {
	st.Batches++
	st.Invocations += len(b.Invs)
	st.BySize[len(b.Invs)]++
	st.Calls += len(obs.Calls)
	if obs.ExecErr != "" {
		st.ExecErrors++
	}
	if obs.Panic != "" {
		st.Panics = append(st.Panics, fmt.Sprintf("batch %d: %s", b.ID, obs.Panic))
	}
	if obs.DirectRan && obs.DirectCalls != len(obs.Calls) && obs.ExecErr == "" && obs.Panic == "" {
		dist := map[string]bool{}
		for _, n := range b.Invs {
			dist[n] = true
		}
		if len(dist) == len(b.Invs) {
			st.Inconsistent = append(st.Inconsistent, map[string]any{"batch": b.ID, "what": "ServerView.Run ran a different number of handlers than the batch path", "batch_calls": len(obs.Calls), "run_calls": obs.DirectCalls})
		}
	}
	if obs.ExecDirect != "" {
		st.Inconsistent = append(st.Inconsistent, map[string]any{"batch": b.ID, "what": obs.ExecDirect})
	}
	seen := map[string]bool{}
	sig := fmt.Sprintf("n=%d err=%v calls=%d:", len(b.Invs), obs.ExecErr != "", len(obs.Calls))
	for _, n := range b.Invs {
		if seen[n] {
			st.Duplicates++
		}
		seen[n] = true
	}
	for _, r := range obs.Rcpts {
		st.Classes[r.Class]++
		sig += r.Class + ","
		// direct checks of the property on the implementation's answer
		if r.FxBad != "" {
			st.Inconsistent = append(st.Inconsistent, map[string]any{"batch": b.ID, "invocation": r.Inv, "what": "the receipt's effects are not the ones the handler returned: " + r.FxBad})
		}
		if r.Found && r.Direct != "" && r.Direct != r.Class {
			st.Inconsistent = append(st.Inconsistent, map[string]any{"batch": b.ID, "invocation": r.Inv, "what": "ServerView.Run answers differently from the batch path", "batch_class": r.Class, "run_class": r.Direct})
		}
		if r.Found && r.Decoded && (r.Ran != r.Inv || r.Issuer != b.W.Ctx.Authority.DID.String()) {
			st.Inconsistent = append(st.Inconsistent, map[string]any{"batch": b.ID, "invocation": r.Inv, "ran": r.Ran, "issuer": r.Issuer})
		}
	}
	st.Signatures[sig]++
	if len(st.Samples) < 5 {
		var cl []string
		for _, r := range obs.Rcpts {
			cl = append(cl, r.Class)
		}
		st.Samples = append(st.Samples, map[string]any{"batch": b.ID, "invocations": len(b.Invs), "receipt_classes": cl, "handler_calls": len(obs.Calls), "handlers": b.Handlers})
	}
}

func init() {
	gens["C08"] = func(o genOpts) error {
		n := 400
		if o.tier == "thorough" {
			n = 8000
		}
		r := rand.New(rand.NewSource(o.seed))
		st := newBatchStats()
		labels := map[int]string{}
		var cases []string
		for i := 0; i < n; i++ {
			b := randomBatch(r, i, o.seed, 6, true)
			if err := b.W.Build(); err != nil {
				return err
			}
			obs := b.Run(nil)
			st.add(b, obs)
			labels[i] = fmt.Sprintf("batch of %d, handlers %v", len(b.Invs), b.Handlers)
			cases = append(cases, b.Coq(obs))
		}
		md, mruns := c08MethodScenarios(o.seed)
		st.Inconsistent = append(st.Inconsistent, md...)
		st.MethodRuns = mruns
		// gen_cov.go: servers built with the library's defaults (no proof resolver: validator.ProofUnavailable) given
		// invocations whose proof travels inline, is only cited by link, or sits next to a dangling link
		for _, b := range covBatches(o.seed, n) {
			if err := b.W.Build(); err != nil {
				return err
			}
			obs := b.Run(nil)
			st.add(b, obs)
			labels[b.ID] = b.Label
			cases = append(cases, b.Coq(obs))
		}
		if err := writeBatchCases(o.out, "cases_C08", cases, 16); err != nil {
			return err
		}
		if err := writeJSON(o.out, "labels.json", labels); err != nil {
			return err
		}
		return writeJSON(o.out, "stats.json", st)
	}
}
