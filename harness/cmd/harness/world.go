package main

// world.go — "worlds" for the validator properties (C01–C06, C19, C03, C08):
// principals, a content-addressed DAG of real tokens built from specs (with
// defect injections), a validation context with recording callbacks, the call
// of validator.Access and the rendering of the world + observations as a
// Gallina term for coq/Check_Validator.v.

import (
	"io"
	"bytes"
	"crypto/ed25519"
	"crypto/sha256"
	"encoding/binary"
	"fmt"
	"sort"
	"strings"
	"sync"
	"time"

	"github.com/ipfs/go-cid"
	ipldprime "github.com/ipld/go-ipld-prime"
	"github.com/ipld/go-ipld-prime/codec/dagcbor"
	"github.com/ipld/go-ipld-prime/datamodel"
	"github.com/ipld/go-ipld-prime/fluent/qp"
	cidlink "github.com/ipld/go-ipld-prime/linking/cid"
	"github.com/ipld/go-ipld-prime/node/basicnode"
	ipldschema "github.com/ipld/go-ipld-prime/schema"
	mh "github.com/multiformats/go-multihash"
	"github.com/multiformats/go-varint"
	"github.com/storacha/go-ucanto/core/dag/blockstore"
	"github.com/storacha/go-ucanto/core/delegation"
	"github.com/storacha/go-ucanto/core/ipld"
	"github.com/storacha/go-ucanto/core/ipld/block"
	"github.com/storacha/go-ucanto/core/ipld/codec/cbor"
	hsha "github.com/storacha/go-ucanto/core/ipld/hash/sha256"
	"github.com/storacha/go-ucanto/core/result/failure"
	"github.com/storacha/go-ucanto/core/schema"
	"github.com/storacha/go-ucanto/did"
	"github.com/storacha/go-ucanto/principal"
	"github.com/storacha/go-ucanto/principal/absentee"
	edsigner "github.com/storacha/go-ucanto/principal/ed25519/signer"
	edverifier "github.com/storacha/go-ucanto/principal/ed25519/verifier"
	rsasigner "github.com/storacha/go-ucanto/principal/rsa/signer"
	rsaverifier "github.com/storacha/go-ucanto/principal/rsa/verifier"
	"github.com/storacha/go-ucanto/principal/signer"
	"github.com/storacha/go-ucanto/ucan"
	"github.com/storacha/go-ucanto/ucan/crypto/signature"
	udm "github.com/storacha/go-ucanto/ucan/datamodel/ucan"
	"github.com/storacha/go-ucanto/validator"
)

// ---------------------------------------------------------------------------
// principals

type Prin struct {
	Name    string
	Signer  ucan.Signer        // how tokens issued in this name are signed
	KeyID   int                // model id of the key that signs (0: no key, e.g. absentee)
	SigCode uint64             // signature code produced by Signer
	DID     did.DID            // the DID tokens carry as issuer
	Real    principal.Verifier // real verifier of the key (nil when there is none)
}

func edFromSeed(seed [32]byte) principal.Signer {
	priv := ed25519.NewKeyFromSeed(seed[:])
	pub := priv.Public().(ed25519.PublicKey)
	s := make([]byte, 68)
	varint.PutUvarint(s, 0x1300)
	copy(s[2:], seed[:])
	varint.PutUvarint(s[34:], 0xed)
	copy(s[36:], pub)
	sg, err := edsigner.Decode(s)
	if err != nil {
		panic(err)
	}
	return sg
}

func seedFor(seed int64, name string) [32]byte {
	var b [8]byte
	binary.LittleEndian.PutUint64(b[:], uint64(seed))
	return sha256.Sum256(append(b[:], []byte(name)...))
}

var rsaOnce sync.Once
var rsaKeys []principal.Signer

func rsaKey(i int) principal.Signer {
	rsaOnce.Do(func() {
		for k := 0; k < 2; k++ {
			s, err := rsasigner.Generate()
			if err != nil {
				panic(err)
			}
			rsaKeys = append(rsaKeys, s)
		}
	})
	return rsaKeys[i%len(rsaKeys)]
}

type Cast struct {
	seed   int64
	byName map[string]*Prin
	nextID int
	keyIDs map[string]int // did:key string -> key id
}

func newCast(seed int64) *Cast {
	return &Cast{seed: seed, byName: map[string]*Prin{}, nextID: 1, keyIDs: map[string]int{}}
}

func (c *Cast) keyID(s principal.Signer) int {
	k := s.DID().String()
	if id, ok := c.keyIDs[k]; ok {
		return id
	}
	id := c.nextID
	c.nextID++
	c.keyIDs[k] = id
	return id
}

// Ed returns (creating on first use) a did:key Ed25519 principal.
func (c *Cast) Ed(name string) *Prin {
	if p, ok := c.byName[name]; ok {
		return p
	}
	s := edFromSeed(seedFor(c.seed, name))
	p := &Prin{Name: name, Signer: s, KeyID: c.keyID(s), SigCode: s.SignatureCode(), DID: s.DID(), Real: s.Verifier()}
	c.byName[name] = p
	return p
}

// RSA returns a did:key RSA principal (two keys per process, generated once).
func (c *Cast) RSA(name string, i int) *Prin {
	if p, ok := c.byName[name]; ok {
		return p
	}
	s := rsaKey(i)
	p := &Prin{Name: name, Signer: s, KeyID: c.keyID(s), SigCode: s.SignatureCode(), DID: s.DID(), Real: s.Verifier()}
	c.byName[name] = p
	return p
}

// Absentee returns a principal identified by a non-key DID that signs with the blank signature.
func (c *Cast) Absentee(name, didstr string) *Prin {
	if p, ok := c.byName[name]; ok {
		return p
	}
	d, err := did.Parse(didstr)
	if err != nil {
		panic(err)
	}
	s := absentee.From(d)
	p := &Prin{Name: name, Signer: s, KeyID: 0, SigCode: s.SignatureCode(), DID: d}
	c.byName[name] = p
	return p
}

// Wrapped returns a principal with a non-key DID that signs with the key of `key`.
func (c *Cast) Wrapped(name, didstr string, key *Prin) *Prin {
	if p, ok := c.byName[name]; ok {
		return p
	}
	d, err := did.Parse(didstr)
	if err != nil {
		panic(err)
	}
	ws, err := signer.Wrap(key.Signer.(principal.Signer), d)
	if err != nil {
		panic(err)
	}
	p := &Prin{Name: name, Signer: ws, KeyID: key.KeyID, SigCode: key.SigCode, DID: d, Real: ws.Verifier()}
	c.byName[name] = p
	return p
}

// forged: claims to be `as` but signs with the key of `by`
type forgedSigner struct {
	as did.DID
	by ucan.Signer
}

func (f forgedSigner) DID() did.DID                          { return f.as }
func (f forgedSigner) Sign(m []byte) signature.SignatureView { return f.by.Sign(m) }
func (f forgedSigner) SignatureCode() uint64                 { return f.by.SignatureCode() }
func (f forgedSigner) SignatureAlgorithm() string            { return f.by.SignatureAlgorithm() }

// ---------------------------------------------------------------------------
// caveats of the harness capability (mirrored by Check_Validator.std_*)

type Cav struct {
	Link ipld.Link
	Max  *int64
	Tag  *string
	Tags []string          // nil = unset
	Hdr  map[string]string // nil = unset; a map-valued caveat
	// a nullable field: unset, a link, or an explicit null (a value the delegation WROTE, not an absent one)
	Orig     ipld.Link
	OrigNull bool
	// extra, ill-typed entries for malformed-caveat cases
	Extra map[string]datamodel.Node
}

func (c Cav) ToIPLD() (datamodel.Node, error) {
	nb := basicnode.Prototype.Map.NewBuilder()
	ma, _ := nb.BeginMap(4)
	if c.Link != nil {
		ma.AssembleKey().AssignString("link")
		ma.AssembleValue().AssignLink(c.Link)
	}
	if c.Max != nil {
		ma.AssembleKey().AssignString("max")
		ma.AssembleValue().AssignInt(*c.Max)
	}
	if c.Tag != nil {
		ma.AssembleKey().AssignString("tag")
		ma.AssembleValue().AssignString(*c.Tag)
	}
	if c.Tags != nil {
		ma.AssembleKey().AssignString("tags")
		la, _ := ma.AssembleValue().BeginList(int64(len(c.Tags)))
		for _, t := range c.Tags {
			la.AssembleValue().AssignString(t)
		}
		la.Finish()
	}
	if c.Hdr != nil {
		ma.AssembleKey().AssignString("hdr")
		hk := make([]string, 0, len(c.Hdr))
		for k := range c.Hdr {
			hk = append(hk, k)
		}
		sort.Strings(hk)
		ha, _ := ma.AssembleValue().BeginMap(int64(len(hk)))
		for _, k := range hk {
			ha.AssembleKey().AssignString(k)
			ha.AssembleValue().AssignString(c.Hdr[k])
		}
		ha.Finish()
	}
	if c.OrigNull {
		ma.AssembleKey().AssignString("orig")
		ma.AssembleValue().AssignNull()
	} else if c.Orig != nil {
		ma.AssembleKey().AssignString("orig")
		ma.AssembleValue().AssignLink(c.Orig)
	}
	keys := make([]string, 0, len(c.Extra))
	for k := range c.Extra {
		keys = append(keys, k)
	}
	sort.Strings(keys)
	for _, k := range keys {
		ma.AssembleKey().AssignString(k)
		ma.AssembleValue().AssignNode(c.Extra[k])
	}
	ma.Finish()
	return nb.Build(), nil
}

// nullNb / strNb: capabilities whose nb is not a map
type rawNb struct{ n datamodel.Node }

func (r rawNb) ToIPLD() (datamodel.Node, error) { return r.n, nil }

type cavReader struct{}

func (cavReader) Read(input any) (Cav, failure.Failure) {
	var n datamodel.Node
	switch x := input.(type) {
	case datamodel.Node:
		n = x
	case ipld.Builder:
		b, err := x.ToIPLD()
		if err != nil {
			return Cav{}, schema.NewSchemaError(err.Error())
		}
		n = b
	default:
		return Cav{}, schema.NewSchemaError("not a node")
	}
	if n == nil || n.Kind() != datamodel.Kind_Map {
		return Cav{}, schema.NewSchemaError("caveats must be a map")
	}
	var c Cav
	seen := map[string]bool{}
	for it := n.MapIterator(); !it.Done(); {
		k, v, err := it.Next()
		if err != nil {
			return Cav{}, schema.NewSchemaError(err.Error())
		}
		ks, _ := k.AsString()
		if seen[ks] {
			return Cav{}, schema.NewSchemaError("duplicate field")
		}
		seen[ks] = true
		switch ks {
		case "link":
			l, err := v.AsLink()
			if err != nil {
				return Cav{}, schema.NewSchemaError("link: not a link")
			}
			c.Link = l
		case "max":
			i, err := v.AsInt()
			if err != nil {
				return Cav{}, schema.NewSchemaError("max: not an int")
			}
			c.Max = &i
		case "tag":
			s, err := v.AsString()
			if err != nil {
				return Cav{}, schema.NewSchemaError("tag: not a string")
			}
			c.Tag = &s
		case "tags":
			if v.Kind() != datamodel.Kind_List {
				return Cav{}, schema.NewSchemaError("tags: not a list")
			}
			c.Tags = []string{}
			for li := v.ListIterator(); !li.Done(); {
				_, e, _ := li.Next()
				s, err := e.AsString()
				if err != nil {
					return Cav{}, schema.NewSchemaError("tags: not strings")
				}
				c.Tags = append(c.Tags, s)
			}
		case "hdr":
			if v.Kind() != datamodel.Kind_Map {
				return Cav{}, schema.NewSchemaError("hdr: not a map")
			}
			c.Hdr = map[string]string{}
			for mi := v.MapIterator(); !mi.Done(); {
				hk, hv, _ := mi.Next()
				ks2, _ := hk.AsString()
				vs, err := hv.AsString()
				if err != nil {
					return Cav{}, schema.NewSchemaError("hdr: not strings")
				}
				c.Hdr[ks2] = vs
			}
		case "orig":
			if v.IsNull() {
				c.OrigNull = true
			} else if l, err := v.AsLink(); err == nil {
				c.Orig = l
			} else {
				return Cav{}, schema.NewSchemaError("orig: neither null nor a link")
			}
		default:
			return Cav{}, schema.NewSchemaError("unknown field " + ks)
		}
	}
	return c, nil
}

type withReader struct{}

// accepts every non-empty resource that does not start with '!'
func (withReader) Read(input string) (string, failure.Failure) {
	if input == "" || strings.HasPrefix(input, "!") {
		return "", schema.NewSchemaError("bad resource")
	}
	return input, nil
}

func subset(a, b []string) bool {
	for _, x := range a {
		found := false
		for _, y := range b {
			if x == y {
				found = true
			}
		}
		if !found {
			return false
		}
	}
	return true
}

type deriveCall struct {
	Claimed, Delegated ucan.Capability[Cav]
	OK                 bool
}

// stdDerives: DefaultDerives on the resource, then every caveat the delegation sets binds the claim
func stdDerives(claimed, delegated ucan.Capability[Cav]) bool {
	if validator.DefaultDerives(claimed, delegated) != nil {
		return false
	}
	c, d := claimed.Nb(), delegated.Nb()
	if d.Link != nil && (c.Link == nil || c.Link.String() != d.Link.String()) {
		return false
	}
	if d.Tag != nil && (c.Tag == nil || *c.Tag != *d.Tag) {
		return false
	}
	if d.Max != nil && (c.Max == nil || *c.Max > *d.Max) {
		return false
	}
	if d.Tags != nil && (c.Tags == nil || !subset(c.Tags, d.Tags)) {
		return false
	}
	if d.OrigNull && !c.OrigNull {
		return false
	}
	if d.Orig != nil && (c.Orig == nil || c.Orig.String() != d.Orig.String()) {
		return false
	}
	if d.Hdr != nil {
		if c.Hdr == nil {
			return false
		}
		for k, v := range c.Hdr {
			if dv, ok := d.Hdr[k]; !ok || dv != v {
				return false
			}
		}
	}
	return true
}

// ---------------------------------------------------------------------------
// token specs

type CapSpec struct {
	Can  string
	With string
	Nb   ucan.CaveatBuilder // Cav or rawNb
}

type ProofRef struct {
	Tok    string // name of the proof token
	Inline bool   // embed its blocks (otherwise only the link is cited)
	// Shallow: embedded as a view that holds ONLY its root block (a copy whose own proofs did not come along); used next
	// to a full copy of the same token
	Shallow bool
}

type TokSpec struct {
	Name      string
	Issuer    *Prin
	SignedBy  *Prin // nil: Issuer
	Audience  *Prin
	Caps      []CapSpec
	Proofs    []ProofRef
	Exp       *int // nil: no expiration
	Nbf       int
	Nonce     string
	Tamper    string // "" or one of the field alterations of tamper()
	TamperTo  *Prin
	NotUCAN   bool   // not a token at all: a DAG-CBOR block of another shape, listed as an invocation
	TamperStr string // for Tamper "withstr": the resource written into every capability after signing
	// extra dangling proof links (no block anywhere)
	Dangling int
	// issued with NO expiration option at all: the library default (now + 30 s) applies; Exp is filled from the token
	DefaultExp bool
}

type Built struct {
	Spec   *TokSpec
	Dlg    delegation.Delegation
	Signer int // key id whose signature over the CURRENT fields the token carries (0: none)
}

type CtxSpec struct {
	Authority   *Prin
	SelfIssued  bool             // can-issue: resource == issuer DID
	Owners      map[string]*Prin // can-issue: resource -> principal allowed to issue
	Revoked     map[string]bool  // token names whose link the checker treats as revoked
	Resolvable  map[string]bool  // token names the proof resolver can supply
	ParserKind  string           // "ed" | "ed+rsa"
	KeyResolver map[string]*Prin // non-key DID string -> did:key principal
	Now         int              // the second at which Access ran (filled by run)
}

type World struct {
	DIDMethod    string // with DIDWith: the reader is restricted to this DID method (schema.WithMethod)
	DIDWith      bool // the capability's resource is read with schema.DIDString() (as real services do) instead of withReader
	Rearchive    string // "archive" | "format": every token goes through Archive/Extract (Format/Parse) right after it is issued
	NilDerives   bool // NewCapability(..., nil): no derivation rule given (model: dd_desc; Derives log not compared)
	StructReader bool // caveats are read with core/schema.Struct (renamed fields) instead of the hand-written reader
	ID           int
	Kind         string // generator label (for statistics)
	Cast         *Cast
	Can          string // the descriptor's ability
	Specs        []*TokSpec
	Inv          string
	Ctx          CtxSpec
	built        map[string]*Built
	order        []string
	linkID       map[string]int
	links        []string
}

func (w *World) lid(l ipld.Link) int {
	k := l.String()
	if id, ok := w.linkID[k]; ok {
		return id
	}
	id := len(w.links) + 1
	w.linkID[k] = id
	w.links = append(w.links, k)
	return id
}

func (w *World) tok(name string) *Built { return w.built[name] }

var farFuture = 4102444800 // 2100-01-01

func fakeLink(i int) ipld.Link {
	b, err := block.Encode(&udm.UCANModel{V: fmt.Sprintf("dangling-%d", i), Iss: []byte{}, Aud: []byte{}, S: []byte{}}, udm.Type(), cbor.Codec, hsha.Hasher)
	if err != nil {
		panic(err)
	}
	return b.Link()
}

// Build issues every token of the world (in spec order: proofs first).
func (w *World) Build() error {
	w.built = map[string]*Built{}
	w.linkID = map[string]int{}
	for _, sp := range w.Specs {
		if sp.NotUCAN {
			// a block that is well-formed DAG-CBOR but not a UCAN, presented as an invocation
			nd, _ := qp.BuildMap(basicnode.Prototype.Any, 2, func(ma datamodel.MapAssembler) {
				qp.MapEntry(ma, "hello", qp.String("world"))
				qp.MapEntry(ma, "n", qp.String(sp.Name))
			})
			raw, err := ipldprime.Encode(nd, dagcbor.Encode)
			if err != nil {
				return err
			}
			sum := sha256.Sum256(raw)
			d0, _ := mh.Encode(sum[:], mh.SHA2_256)
			blk := block.NewBlock(cidlink.Link{Cid: cid.NewCidV1(0x71, d0)}, raw)
			br, _ := blockstore.NewBlockReader(blockstore.WithBlocks([]ipld.Block{blk}))
			d, err := delegation.NewDelegation(blk, br)
			if err != nil {
				return err
			}
			w.built[sp.Name] = &Built{Spec: sp, Dlg: d, Signer: 0}
			w.order = append(w.order, sp.Name)
			continue
		}
		var prfs []delegation.Proof
		for _, pr := range sp.Proofs {
			pb := w.built[pr.Tok]
			if pb == nil {
				return fmt.Errorf("world %d: proof %s of %s not built", w.ID, pr.Tok, sp.Name)
			}
			if pr.Inline && pr.Shallow {
				br, err := blockstore.NewBlockReader(blockstore.WithBlocks([]ipld.Block{pb.Dlg.Root()}))
				if err != nil {
					return err
				}
				sh, err := delegation.NewDelegationView(pb.Dlg.Link(), br)
				if err != nil {
					return err
				}
				prfs = append(prfs, delegation.FromDelegation(sh))
			} else if pr.Inline {
				prfs = append(prfs, delegation.FromDelegation(pb.Dlg))
			} else {
				prfs = append(prfs, delegation.FromLink(pb.Dlg.Link()))
			}
		}
		for i := 0; i < sp.Dangling; i++ {
			prfs = append(prfs, delegation.FromLink(fakeLink(w.ID*100+i)))
		}
		var sg ucan.Signer = sp.Issuer.Signer
		signerID := sp.Issuer.KeyID
		if sp.SignedBy != nil {
			sg = forgedSigner{as: sp.Issuer.DID, by: sp.SignedBy.Signer}
			signerID = sp.SignedBy.KeyID
		}
		caps := []ucan.Capability[ucan.CaveatBuilder]{}
		for _, c := range sp.Caps {
			caps = append(caps, ucan.NewCapability(c.Can, c.With, c.Nb))
		}
		opts := []delegation.Option{delegation.WithProof(prfs...)}
		issuedFrom := int(time.Now().Unix())
		if sp.DefaultExp {
			// no expiration option: ucan.Issue defaults to 30 s from now
		} else if sp.Exp == nil {
			// every third world states the expiration twice, a contradicting default first: the LAST option given is in force
			if w.ID%3 == 1 {
				opts = append(opts, delegation.WithExpiration(int(ucan.Now())-5000))
			}
			opts = append(opts, delegation.WithNoExpiration())
		} else {
			if w.ID%3 == 1 {
				opts = append(opts, delegation.WithNoExpiration())
			}
			opts = append(opts, delegation.WithExpiration(*sp.Exp))
		}
		if sp.Nbf != 0 {
			opts = append(opts, delegation.WithNotBefore(sp.Nbf))
		}
		if sp.Nonce != "" {
			opts = append(opts, delegation.WithNonce(sp.Nonce))
		}
		d, err := delegation.Delegate(sg, sp.Audience.DID, caps, opts...)
		if err != nil {
			return fmt.Errorf("world %d: issuing %s: %v", w.ID, sp.Name, err)
		}
		if sp.DefaultExp {
			// gen_cov.go: the default expiration is 30 s after the second of issuance
			if mm := covDefaultExp(d, issuedFrom, int(time.Now().Unix())); mm != "" && curStats != nil {
				curStats.AccessorMismatches = append(curStats.AccessorMismatches, fmt.Sprintf("world %d token %s: %s", w.ID, sp.Name, mm))
			}
			if e := d.Expiration(); e != nil {
				ev := *e
				sp.Exp = &ev
			}
		} else if d2, mm := covIssueVariants(w, sp, sg, opts, d); mm != "" && curStats != nil {
			// gen_cov.go: the same token issued through CapabilityParser.Delegate / Invoke, invocation.Invoke and read with
			// invocation.NewInvocation is the same token
			curStats.AccessorMismatches = append(curStats.AccessorMismatches, fmt.Sprintf("world %d token %s: %s", w.ID, sp.Name, mm))
		} else if d2 != nil {
			d = d2 // every other eligible token of the world IS the one the capability helper issued
		}
		if mm := accessorMismatch(d, sp, sg, len(prfs)); mm != "" && curStats != nil && len(curStats.AccessorMismatches) < 20 {
			curStats.AccessorMismatches = append(curStats.AccessorMismatches, fmt.Sprintf("world %d token %s: %s", w.ID, sp.Name, mm))
		}
		if sp.Tamper != "" {
			d, err = tamper(d, sp)
			if err != nil {
				return err
			}
			if sp.Tamper != "sigcopy" {
				signerID = 0
			}
		}
		if w.Rearchive != "" {
			// every token is stored and loaded again before anybody uses it (as a proof inline, from the resolver, as the
			// invocation): what comes back carries the token with its whole embedded proof DAG
			if d2 := rearchived(d, w.Rearchive); d2 != nil {
				d = d2
			}
		}
		w.built[sp.Name] = &Built{Spec: sp, Dlg: d, Signer: signerID}
		w.order = append(w.order, sp.Name)
	}
	return nil
}

func rearchived(d delegation.Delegation, how string) delegation.Delegation {
	var out delegation.Delegation
	if p := recovered(func() {
		switch how {
		case "format":
			s, err := delegation.Format(d)
			if err != nil {
				return
			}
			if d2, err := delegation.Parse(s); err == nil {
				out = d2
			}
		default:
			b, err := io.ReadAll(d.Archive())
			if err != nil {
				return
			}
			if d2, err := delegation.Extract(b); err == nil {
				out = d2
			}
		}
	}); p != nil {
		return nil
	}
	if out == nil || out.Link().String() != d.Link().String() {
		return nil
	}
	return out
}

// accessorMismatch: what a freshly issued token's accessors report against what was asked of Delegate.
func accessorMismatch(issued delegation.Delegation, sp *TokSpec, sg ucan.Signer, nprf int) string {
	// look at a SECOND view over the same blocks: the issued object itself stays untouched until the code under test
	// uses it (lazily filled fields of a shared object must still be cold when concurrent users arrive)
	br, err := blockstore.NewBlockReader(blockstore.WithBlocksIterator(issued.Blocks()))
	if err != nil {
		return ""
	}
	d, err := delegation.NewDelegationView(issued.Link(), br)
	if err != nil {
		return ""
	}
	if len(d.Signature().Bytes()) == 0 && len(d.Capabilities()) == 0 {
		// the root block does not decode as a UCAN (e.g. caveats that are not a map or null): such a delegation has no fields
		// at all (core/delegation Data()); what the validator makes of it is the world's business
		return ""
	}
	if e := d.Expiration(); (e == nil) != (sp.Exp == nil) || (e != nil && *e != *sp.Exp) {
		return fmt.Sprintf("Expiration() = %s, issued with %s", coqOptZ(e), coqOptZ(sp.Exp))
	}
	if d.NotBefore() != sp.Nbf {
		return fmt.Sprintf("NotBefore() = %d, issued with %d", d.NotBefore(), sp.Nbf)
	}
	if d.Issuer().DID() != sg.DID() {
		return fmt.Sprintf("Issuer() = %s, issued by %s", d.Issuer().DID(), sg.DID())
	}
	if d.Audience().DID() != sp.Audience.DID {
		return fmt.Sprintf("Audience() = %s, issued for %s", d.Audience().DID(), sp.Audience.DID)
	}
	if len(d.Proofs()) != nprf {
		return fmt.Sprintf("Proofs() has %d entries, issued with %d", len(d.Proofs()), nprf)
	}
	if len(d.Capabilities()) != len(sp.Caps) {
		return fmt.Sprintf("Capabilities() has %d entries, issued with %d", len(d.Capabilities()), len(sp.Caps))
	}
	for i, c := range d.Capabilities() {
		if c.Can() != sp.Caps[i].Can || c.With() != sp.Caps[i].With {
			return fmt.Sprintf("Capabilities()[%d] = %s on %s, issued %s on %s", i, c.Can(), c.With(), sp.Caps[i].Can, sp.Caps[i].With)
		}
		// the caveats written in the token are the ones the builder produced (also when the builder's value is all zeroes)
		if want, err := sp.Caps[i].Nb.ToIPLD(); err == nil && want != nil {
			if got := nbNode(c.Nb()); got == nil || !nodeEqual(got, want) {
				return fmt.Sprintf("Capabilities()[%d].Nb() is not what the caveat builder produced", i)
			}
		}
	}
	return ""
}

// tamper re-encodes the token with one field changed after signing.
func tamper(d delegation.Delegation, sp *TokSpec) (delegation.Delegation, error) {
	m := *d.Data().Model()
	switch sp.Tamper {
	case "aud":
		if string(m.Aud) == string(sp.TamperTo.DID.Bytes()) {
			m.Aud = m.Iss // already addressed to that principal (e.g. combined with "misaligned"): the change must be a change
		} else {
			m.Aud = sp.TamperTo.DID.Bytes()
		}
	case "iss":
		m.Iss = sp.TamperTo.DID.Bytes()
	case "cap":
		att := append([]udm.CapabilityModel{}, m.Att...)
		att[0].With = sp.TamperTo.DID.String()
		if m.Att[0].With == att[0].With {
			// the capability already names that resource (e.g. combined with "foreign-resource"): the change must be a change
			att[0].With += "#tampered"
		}
		m.Att = att
	case "withstr":
		att := append([]udm.CapabilityModel{}, m.Att...)
		for i := range att {
			att[i].With = sp.TamperStr
		}
		m.Att = att
	case "nbf0":
		// an absent not-before becomes present with the value 0 (or a present one changes)
		z := 0
		if m.Nbf != nil {
			z = *m.Nbf + 1
		}
		m.Nbf = &z
	case "nnc0":
		e := ""
		if m.Nnc != nil {
			e = *m.Nnc + "x"
		}
		m.Nnc = &e
	case "exp":
		e := farFuture + 1
		m.Exp = &e
	case "sig":
		s := append([]byte{}, m.S...)
		s[len(s)-1] ^= 1
		m.S = s
	case "nocaps":
		m.Att = []udm.CapabilityModel{}
	case "emptyiss":
		m.Iss = []byte{}
	case "shortsig":
		m.S = m.S[:3]
	case "emptyaud":
		m.Aud = []byte{}
	case "iss1byte":
		m.Iss = []byte{0xed}
	case "isstrunc":
		m.Iss = m.Iss[:5]
	case "issbad":
		m.Iss = []byte{0xff, 0xff, 0xff, 0xff, 0xff, 0xff, 0xff, 0xff, 0xff, 0xff, 0x01}
	case "isshuge":
		b := make([]byte, 2048)
		copy(b, m.Iss)
		m.Iss = b
	case "isscorekey":
		m.Iss = append([]byte{0x9d, 0x1a}, []byte("key:z6MkffDZCkCTWreg8868fG1FGFogcJj5X6PY93pPcWDn9bob")...)
	case "isscoreempty":
		m.Iss = []byte{0x9d, 0x1a}
	case "sigempty":
		m.S = []byte{}
	case "sigcodeonly":
		m.S = []byte{0xed, 0xa1, 0x03}
	case "sigshort":
		m.S = m.S[:10]
	case "sighugesize":
		m.S = append([]byte{0xed, 0xa1, 0x03}, append(varint.ToUvarint(1<<62), 1, 2, 3, 4)...)
	case "sigsizemax":
		m.S = append([]byte{0xed, 0xa1, 0x03}, append(varint.ToUvarint(1<<63-1), 1, 2, 3, 4)...)
	case "sigsizenearmax":
		m.S = append([]byte{0xed, 0xa1, 0x03}, append(varint.ToUvarint(1<<63-12), m.S[5:]...)...)
	case "sigbadcode":
		m.S = append([]byte{0x01}, m.S[3:]...)
	case "sigbadvarint":
		m.S = []byte{0xff, 0xff, 0xff, 0xff, 0xff, 0xff, 0xff, 0xff, 0xff, 0xff, 0xff, 0x01}
	case "capempty":
		m.Att = []udm.CapabilityModel{{With: "", Can: "", Nb: m.Att[0].Nb}}
	case "nbnull":
		att := append([]udm.CapabilityModel{}, m.Att...)
		att[0].Nb = datamodel.Null
		m.Att = att
	case "nbstring":
		att := append([]udm.CapabilityModel{}, m.Att...)
		att[0].Nb = basicnode.NewString("x")
		m.Att = att
	case "manycaps":
		var att []udm.CapabilityModel
		for i := 0; i < 300; i++ {
			att = append(att, m.Att[0])
		}
		m.Att = att
	case "prfdangling":
		m.Prf = append(append([]ipld.Link{}, m.Prf...), fakeLink(424242))
	case "prfmany":
		prf := append([]ipld.Link{}, m.Prf...)
		for i := 0; i < 200; i++ {
			prf = append(prf, fakeLink(500000+i))
		}
		m.Prf = prf
	case "expneg":
		e := -1
		m.Exp = &e
	case "expzero":
		e := 0
		m.Exp = &e
	case "expmax":
		e := 1 << 62
		m.Exp = &e
	case "nbfmax":
		e := 1 << 62
		m.Nbf = &e
	case "nbfneg":
		e := -5
		m.Nbf = &e
	case "verweird":
		m.V = "9.9.9"
	case "verempty":
		m.V = ""
	case "veruniq":
		m.V = "0.9." + sp.Name + sp.Nonce // a version string nobody has seen before, different for every token
	case "ver0":
		m.V = "0"
	case "ver0dot":
		m.V = "0."
	case "ver09":
		m.V = "0.9"
	case "verlong":
		m.V = "0.9.1.0.0.0.0.0.0.0.0.0.0.0.0.0"
	case "verdots":
		m.V = "..."
	case "nncempty":
		e := ""
		m.Nnc = &e
	default:
		return nil, fmt.Errorf("unknown tamper %s", sp.Tamper)
	}
	rt, err := block.Encode(&m, udm.Type(), cbor.Codec, hsha.Hasher)
	if err != nil {
		return nil, err
	}
	var blks []ipld.Block
	for b, err := range d.Blocks() {
		if err != nil {
			return nil, err
		}
		if b.Link().String() != d.Link().String() {
			blks = append(blks, b)
		}
	}
	blks = append(blks, rt)
	br, err := blockstore.NewBlockReader(blockstore.WithBlocks(blks))
	if err != nil {
		return nil, err
	}
	return delegation.NewDelegation(rt, br)
}

// ---------------------------------------------------------------------------
// running validator.Access with recording callbacks

type countingVerifier struct {
	principal.Verifier
	keyID int
	obs   *Obs
}

func (c countingVerifier) Verify(msg []byte, sig signature.Signature) bool {
	c.obs.mu.Lock()
	c.obs.Verifies = append(c.obs.Verifies, c.keyID)
	c.obs.mu.Unlock()
	return c.Verifier.Verify(msg, sig)
}

type pathNode struct {
	Link string
	Can  string
	With string
	Nb   datamodel.Node
}

type checkCall struct {
	Path    []pathNode
	Revoked bool
}

type Obs struct {
	mu         sync.Mutex
	Authorized bool
	Path       []pathNode
	Verifies   []int
	Checks     []checkCall
	Derives    []deriveCall
	ErrRevoked bool   // Unauthorized reports a revocation among its invalid proofs
	Panic      string // recovered panic, if any
	NowBefore  int
	NowAfter   int
}

func nbNode(nb any) datamodel.Node {
	switch x := nb.(type) {
	case datamodel.Node:
		return x
	case ipld.Builder:
		n, _ := x.ToIPLD()
		return n
	}
	return nil
}

func walkAuth[C any](a validator.Authorization[C]) []pathNode {
	var res []pathNode
	for a != nil {
		c := a.Capability()
		res = append(res, pathNode{Link: a.Delegation().Link().String(), Can: c.Can(), With: c.With(), Nb: nbNode(any(c.Nb()))})
		ps := a.Proofs()
		if len(ps) == 0 {
			break
		}
		a = ps[0]
	}
	return res
}

func (w *World) parser(obs *Obs) validator.PrincipalParserFunc {
	return func(str string) (principal.Verifier, error) {
		v, err := edverifier.Parse(str)
		if err != nil && w.Ctx.ParserKind == "ed+rsa" {
			v, err = rsaverifier.Parse(str)
		}
		if err != nil && w.Ctx.ParserKind == "ed+web" && strings.HasPrefix(str, "did:web:") {
			// a parser that also knows did:web principals: it answers with a verifier that carries the did:web DID
			names := make([]string, 0, len(w.Cast.byName))
			for n := range w.Cast.byName {
				names = append(names, n)
			}
			sort.Strings(names)
			for _, n := range names {
				if p := w.Cast.byName[n]; p.DID.String() == str && p.Real != nil {
					return countingVerifier{p.Real, p.KeyID, obs}, nil
				}
			}
		}
		if err != nil {
			return nil, err
		}
		return countingVerifier{v, w.Cast.keyIDs[v.DID().String()], obs}, nil
	}
}

// structCavReader reads the same caveats through the library's own schema reader (core/schema.Struct over an IPLD
// schema whose fields are RENAMED in the representation), then converts to Cav: the validator's guarantees must not
// depend on which reader a capability uses.  (The nullable field `orig` is left to cavReader.)
type cavModel struct {
	Lnk *datamodel.Link
	Mx  *int64
	Tg  *string
	Tgs []string
	Hd  *struct {
		Keys   []string
		Values map[string]string
	}
}

var cavModelType = func() ipldschema.Type {
	ts, err := ipldprime.LoadSchemaBytes([]byte(`type CavModel struct {
  lnk optional Link (rename "link")
  mx optional Int (rename "max")
  tg optional String (rename "tag")
  tgs optional [String] (rename "tags")
  hd optional {String:String} (rename "hdr")
}
`))
	if err != nil {
		panic(err)
	}
	return ts.TypeByName("CavModel")
}()

type structCavReader struct{}

func (structCavReader) Read(input any) (Cav, failure.Failure) {
	m, err := schema.Struct[cavModel](cavModelType, nil).Read(input)
	if err != nil {
		return Cav{}, err
	}
	c := Cav{Max: m.Mx, Tag: m.Tg, Tags: m.Tgs}
	if m.Lnk != nil {
		c.Link = *m.Lnk
	}
	if m.Hd != nil {
		c.Hdr = map[string]string{}
		for _, k := range m.Hd.Keys {
			c.Hdr[k] = m.Hd.Values[k]
		}
	}
	return c, nil
}

func (w *World) descriptor(obs *Obs) validator.CapabilityParser[Cav] {
	var nbReader schema.Reader[any, Cav] = cavReader{}
	if w.StructReader {
		nbReader = structCavReader{}
	}
	var wr schema.Reader[string, string] = withReader{}
	if w.DIDWith {
		wr = schema.DIDString()
		if w.DIDMethod != "" {
			wr = schema.DIDString(schema.WithMethod(w.DIDMethod))
		}
	}
	if w.NilDerives {
		// the documented default: a capability declared without a derivation rule is bound by DefaultDerives
		return validator.NewCapability[Cav](w.Can, wr, nbReader, nil)
	}
	return validator.NewCapability[Cav](w.Can, wr, nbReader,
		func(claimed, delegated ucan.Capability[Cav]) failure.Failure {
			ok := stdDerives(claimed, delegated)
			obs.mu.Lock()
			obs.Derives = append(obs.Derives, deriveCall{claimed, delegated, ok})
			obs.mu.Unlock()
			if !ok {
				return schema.NewSchemaError("caveat or resource escalation")
			}
			return nil
		})
}

func (w *World) canIssue(c ucan.Capability[any], issuer did.DID) bool {
	if w.Ctx.SelfIssued && c.With() == issuer.DID().String() {
		return true
	}
	if o, ok := w.Ctx.Owners[c.With()]; ok && o.DID == issuer {
		return true
	}
	return false
}

func (w *World) checker(obs *Obs) validator.RevocationCheckerFunc[any] {
	return func(auth validator.Authorization[any]) validator.Revoked {
		path := walkAuth(auth)
		var hit delegation.Delegation
		for a := auth; a != nil; {
			// what the untyped authorization says about its principals is what its delegation says (a checker may revoke by issuer)
			if p := recovered(func() {
				if a.Issuer().DID() != a.Delegation().Issuer().DID() || a.Audience().DID() != a.Delegation().Audience().DID() {
					if curStats != nil && len(curStats.AccessorMismatches) < 20 {
						curStats.AccessorMismatches = append(curStats.AccessorMismatches, fmt.Sprintf("world %d authorization handed to the revocation checker: Issuer() / Audience() = %s / %s, its delegation says %s / %s",
							w.ID, a.Issuer().DID(), a.Audience().DID(), a.Delegation().Issuer().DID(), a.Delegation().Audience().DID()))
					}
				}
			}); p != nil && curStats != nil && len(curStats.AccessorMismatches) < 20 {
				curStats.AccessorMismatches = append(curStats.AccessorMismatches, fmt.Sprintf("world %d authorization handed to the revocation checker: Issuer() / Audience() panicked: %v", w.ID, p))
			}
			for name, rv := range w.Ctx.Revoked {
				if rv && w.built[name] != nil && w.built[name].Dlg.Link().String() == a.Delegation().Link().String() {
					hit = a.Delegation()
				}
			}
			if len(a.Proofs()) == 0 {
				break
			}
			a = a.Proofs()[0]
		}
		obs.mu.Lock()
		obs.Checks = append(obs.Checks, checkCall{path, hit != nil})
		obs.mu.Unlock()
		if hit != nil {
			return validator.NewRevokedError(hit)
		}
		return nil
	}
}

func (w *World) resolver() validator.ProofResolverFunc {
	return func(p ucan.Link) (delegation.Delegation, validator.UnavailableProof) {
		for name, ok := range w.Ctx.Resolvable {
			if ok && w.built[name] != nil && w.built[name].Dlg.Link().String() == p.String() {
				return w.built[name].Dlg, nil
			}
		}
		return nil, validator.NewUnavailableProofError(p, fmt.Errorf("unknown proof"))
	}
}

func (w *World) keyResolver() validator.PrincipalResolverFunc {
	return func(d did.DID) (did.DID, validator.UnresolvedDID) {
		if p, ok := w.Ctx.KeyResolver[d.String()]; ok {
			return p.DID, nil
		}
		return did.Undef, validator.NewDIDKeyResolutionError(d, fmt.Errorf("unknown"))
	}
}

func (w *World) authorityVerifier(obs *Obs) principal.Verifier {
	a := w.Ctx.Authority
	return countingVerifier{a.Real, a.KeyID, obs}
}

func (w *World) vctx(obs *Obs) validator.ValidationContext[Cav] {
	var canIssue validator.CanIssueFunc[any] = w.canIssue
	if w.Ctx.SelfIssued && len(w.Ctx.Owners) == 0 && w.ID%2 == 0 {
		// the policy is plain self-issue: every other such world hands the validator the library's own IsSelfIssued
		// (the default of every server) instead of the harness's mirror of it
		canIssue = validator.IsSelfIssued[any]
	}
	return validator.NewValidationContext[Cav](
		w.authorityVerifier(obs), w.descriptor(obs), canIssue, w.checker(obs),
		w.resolver(), w.parser(obs), w.keyResolver())
}

// Run calls validator.Access on the world's invocation.
func (w *World) Run() *Obs {
	obs := &Obs{}
	inv := w.built[w.Inv].Dlg
	obs.NowBefore = int(time.Now().Unix()) // the wall clock itself, not the library's reading of it
	if p := recovered(func() {
		a, x := validator.Access(inv, w.vctx(obs))
		if x == nil && a != nil {
			obs.Authorized = true
			obs.Path = walkAuth(a)
		} else if x != nil {
			for _, ip := range x.InvalidProofs() {
				if _, ok := ip.(validator.Revoked); ok {
					obs.ErrRevoked = true
				}
			}
			covRenderError(w, x) // gen_cov.go: the error a server would put into the receipt can be rendered (small worlds)
		}
	}); p != nil {
		obs.Panic = fmt.Sprint(p)
	}
	obs.NowAfter = int(time.Now().Unix())
	w.Ctx.Now = obs.NowBefore
	return obs
}

// ---------------------------------------------------------------------------
// rendering as Gallina

func coqDID(d did.DID) string {
	if !d.Defined() {
		return "DUndef"
	}
	key := strings.HasPrefix(d.String(), "did:key:") && isKeyDID(d)
	return fmt.Sprintf("(Did %s %s)", coqBool(key), hxs(d.String()))
}

// did.DID does not export its key flag; recover it from the bytes
func isKeyDID(d did.DID) bool {
	code, _, err := varint.FromUvarint(d.Bytes())
	return err == nil && (code == did.Ed25519 || code == did.RSA)
}

func (w *World) coqCval(n datamodel.Node) string {
	switch n.Kind() {
	case datamodel.Kind_Link:
		l, _ := n.AsLink()
		return fmt.Sprintf("(VLink %d)", w.lid(l))
	case datamodel.Kind_Int:
		i, err := n.AsInt()
		if err != nil {
			return "VOtherKind" // a uint64 above int64: AsInt fails, no reader takes it for an integer (TokenView.view_cval)
		}
		return fmt.Sprintf("(VInt (%d)%%Z)", i)
	case datamodel.Kind_String:
		s, _ := n.AsString()
		return fmt.Sprintf("(VStr %s)", hxs(s))
	case datamodel.Kind_List:
		var items []string
		for li := n.ListIterator(); !li.Done(); {
			_, e, _ := li.Next()
			s, err := e.AsString()
			if err != nil {
				return "VOtherKind"
			}
			items = append(items, hxs(s))
		}
		return "(VList [" + strings.Join(items, "; ") + "])"
	case datamodel.Kind_Map:
		var items []string
		for mi := n.MapIterator(); !mi.Done(); {
			k, v, _ := mi.Next()
			ks, _ := k.AsString()
			vs, err := v.AsString()
			if err != nil {
				return "VOtherKind"
			}
			items = append(items, fmt.Sprintf("(%s, %s)", hxs(ks), hxs(vs)))
		}
		return "(VMap [" + strings.Join(items, "; ") + "])"
	case datamodel.Kind_Null:
		return "VNull"
	}
	return "VOtherKind"
}

func (w *World) coqCmap(n datamodel.Node) string {
	var items []string
	for it := n.MapIterator(); !it.Done(); {
		k, v, _ := it.Next()
		ks, _ := k.AsString()
		items = append(items, fmt.Sprintf("(%s, %s)", hxs(ks), w.coqCval(v)))
	}
	return "[" + strings.Join(items, "; ") + "]"
}

func (w *World) coqNbv(n datamodel.Node) string {
	if n == nil || n.Kind() == datamodel.Kind_Null {
		return "NbNull"
	}
	if n.Kind() != datamodel.Kind_Map {
		return "NbOther"
	}
	return "(NbMap " + w.coqCmap(n) + ")"
}

func (w *World) coqCap(can, with string, nb datamodel.Node) string {
	m := "[]"
	if nb != nil && nb.Kind() == datamodel.Kind_Map {
		m = w.coqCmap(nb)
	}
	return fmt.Sprintf("(mkCap %s %s %s)", hxs(can), hxs(with), m)
}

func (w *World) coqToken(b *Built) string {
	d := b.Dlg
	var caps []string
	for _, c := range d.Capabilities() {
		caps = append(caps, fmt.Sprintf("(mkRaw %s %s %s)", hxs(c.Can()), hxs(c.With()), w.coqNbv(nbNode(c.Nb()))))
	}
	var prf []string
	for _, l := range d.Proofs() {
		prf = append(prf, fmt.Sprint(w.lid(l)))
	}
	signer := "None"
	if b.Signer != 0 && len(d.Signature().Bytes()) > 0 { // a block that does not decode as a UCAN carries no signature at all (token-view:signer)
		signer = fmt.Sprintf("(Some %d)", b.Signer)
	}
	return fmt.Sprintf("(mkTok %s %s [%s] [%s] %s (%d)%%Z %d %s)",
		coqDID(d.Issuer().DID()), coqDID(d.Audience().DID()), strings.Join(caps, "; "),
		strings.Join(prf, "; "), coqOptZ(d.Expiration()), d.NotBefore(), d.Signature().Code(), signer)
}

func (w *World) coqDlg(d delegation.Delegation) string {
	var vis []string
	seen := map[int]bool{}
	for b, err := range d.Blocks() {
		if err != nil {
			continue
		}
		id := w.lid(b.Link())
		if !seen[id] {
			seen[id] = true
			vis = append(vis, fmt.Sprint(id))
		}
	}
	return fmt.Sprintf("(mkDlg %d [%s])", w.lid(d.Link()), strings.Join(vis, "; "))
}

func (w *World) coqVerifier(keyID int, code uint64, d did.DID) string {
	return fmt.Sprintf("(mkVf %d %d %s)", keyID, code, coqDID(d))
}

func (w *World) coqPath(p []pathNode) string {
	var items []string
	for _, n := range p {
		items = append(items, fmt.Sprintf("(%d, %s)", w.linkID[n.Link], w.coqCap(n.Can, n.With, n.Nb)))
	}
	return "[" + strings.Join(items, "; ") + "]"
}

// allDIDStrings: every DID string that can be handed to the principal parser
func (w *World) allDIDStrings() []string {
	set := map[string]bool{}
	for _, b := range w.built {
		set[b.Dlg.Issuer().DID().String()] = true
	}
	for _, p := range w.Ctx.KeyResolver {
		set[p.DID.String()] = true
	}
	var res []string
	for s := range set {
		res = append(res, s)
	}
	sort.Strings(res)
	return res
}

// Coq renders the world and the observations as a `wcase` record.
func (w *World) Coq(obs *Obs) string {
	var sb strings.Builder
	// make sure every block visible to the invocation has a link id before tokens are printed
	inv := w.built[w.Inv].Dlg
	invDlg := w.coqDlg(inv)
	var toks []string
	names := append([]string{}, w.order...)
	for _, n := range names {
		b := w.built[n]
		toks = append(toks, fmt.Sprintf("(%d, %s)", w.lid(b.Dlg.Link()), w.coqToken(b)))
	}
	var resolver []string
	for n, ok := range w.Ctx.Resolvable {
		if ok && w.built[n] != nil {
			resolver = append(resolver, fmt.Sprintf("(%d, %s)", w.lid(w.built[n].Dlg.Link()), w.coqDlg(w.built[n].Dlg)))
		}
	}
	sort.Strings(resolver)
	var revoked []string
	for n, ok := range w.Ctx.Revoked {
		if ok && w.built[n] != nil {
			revoked = append(revoked, fmt.Sprint(w.lid(w.built[n].Dlg.Link())))
		}
	}
	sort.Strings(revoked)
	var owners []string
	for res, p := range w.Ctx.Owners {
		owners = append(owners, fmt.Sprintf("(%s, %s)", hxs(res), coqDID(p.DID)))
	}
	sort.Strings(owners)
	var principals []string
	dummy := &Obs{}
	parse := w.parser(dummy)
	for _, s := range w.allDIDStrings() {
		v, err := parse(s)
		if err == nil {
			kid := w.Cast.keyIDs[v.DID().String()]
			if cv, ok := v.(countingVerifier); ok {
				kid = cv.keyID
			}
			principals = append(principals, fmt.Sprintf("(%s, %s)", hxs(s), w.coqVerifier(kid, sigCodeOf(v), v.DID())))
		}
	}
	var keyres []string
	for s, p := range w.Ctx.KeyResolver {
		d, _ := did.Parse(s)
		keyres = append(keyres, fmt.Sprintf("(%s, %s)", coqDID(d), coqDID(p.DID)))
	}
	sort.Strings(keyres)
	a := w.Ctx.Authority
	var checks []string
	for _, c := range obs.Checks {
		checks = append(checks, fmt.Sprintf("(%s, %s)", w.coqPath(c.Path), coqBool(c.Revoked)))
	}
	var derives []string
	for _, d := range obs.Derives {
		derives = append(derives, fmt.Sprintf("(%s, %s, %s)",
			w.coqCap(d.Claimed.Can(), d.Claimed.With(), nbNode(d.Claimed.Nb())),
			w.coqCap(d.Delegated.Can(), d.Delegated.With(), nbNode(d.Delegated.Nb())), coqBool(d.OK)))
	}
	var verifs []string
	for _, k := range obs.Verifies {
		verifs = append(verifs, fmt.Sprint(k))
	}
	fmt.Fprintf(&sb, "{| wc_id := %d;\n wc_tokens := %s;\n wc_inv := %s;\n wc_can := %s;\n", w.ID, coqList(toks), invDlg, hxs(w.Can))
	fmt.Fprintf(&sb, " wc_authority := %s;\n wc_self := %s;\n wc_owners := [%s];\n wc_revoked := [%s];\n",
		w.coqVerifier(a.KeyID, a.SigCode, a.DID), coqBool(w.Ctx.SelfIssued), strings.Join(owners, "; "), strings.Join(revoked, "; "))
	fmt.Fprintf(&sb, " wc_resolver := [%s];\n wc_principals := [%s];\n wc_keyres := [%s];\n wc_now := (%d)%%Z;\n",
		strings.Join(resolver, "; "), strings.Join(principals, "; "), strings.Join(keyres, "; "), w.Ctx.Now)
	fmt.Fprintf(&sb, " ob_auth := %s;\n ob_path := %s;\n ob_verifies := [%s];\n ob_checks := [%s];\n ob_derives := [%s];\n ob_err_revoked := %s |}",
		coqBool(obs.Authorized), w.coqPath(obs.Path), strings.Join(verifs, "; "), strings.Join(checks, ";\n   "), strings.Join(derives, ";\n   "), coqBool(obs.ErrRevoked))
	tokenViewHook(w) // tokenview.go: root block bytes + observed signature checks of every token (coq/Check_TokenView.v)
	return sb.String()
}

func sigCodeOf(v principal.Verifier) uint64 {
	switch v.Code() {
	case 0xed:
		return signature.EdDSA
	case 0x1205:
		return signature.RS256
	}
	return 0
}

// writeWorldCases writes shards of case files for a list of (world, obs).
func writeWorldCases(dir, prefix string, cases []string, shards int, checkFn string) error {
	if err := flushTokenViews(dir, prefix, shards); err != nil { // tokenview.go: tview_*.v next to the case files
		return err
	}
	if shards < 1 {
		shards = 1
	}
	per := (len(cases) + shards - 1) / shards
	if per == 0 {
		per = 1
	}
	for k := 0; k*per < len(cases); k++ {
		hi := (k + 1) * per
		if hi > len(cases) {
			hi = len(cases)
		}
		var sb bytes.Buffer
		sb.WriteString("From Ucanto Require Import Base Pattern Time Validator Check_Validator.\nOpen Scope N_scope.\n")
		defs, body := internHex(coqList(cases[k*per : hi]))
		sb.WriteString(defs)
		fmt.Fprintf(&sb, "Definition cases : list wcase := %s.\n", body)
		fmt.Fprintf(&sb, "Definition M := Eval vm_compute in %s cases.\nPrint M.\n", checkFn)
		if err := writeFile(dir, fmt.Sprintf("%s_%02d.v", prefix, k), sb.String()); err != nil {
			return err
		}
	}
	return nil
}
