package main

// C14, base encodings: the Go base58 / multibase libraries against the concrete
// decoders and encoders of coq/BaseDec.v + coq/BaseEnc.v.
//
//   which 0  multibase.Decode("z"+x) with encoding Base58BTC   = BaseDec.b58dec x
//   which 1  multibase.Decode(x)  (modelled prefixes)          = BaseDec.mb_decode x
//   which 2  multibase.Encode(Base58BTC, x) without the "z"    = BaseEnc.b58enc x
//   which 3  multibase.Encode(Base64pad, x)                    = BaseDec.mb64enc x
//
// Every pair the libraries produced while the other C14 cases were generated is
// recorded (c14BaseRecord), plus near misses generated here.  signer.Format /
// signer.Parse (the users of multibase.Decode of any base) get cases of their own.

import (
	"encoding/base32"
	"encoding/base64"
	"encoding/hex"
	"fmt"
	"math/rand"
	"strings"

	mbase "github.com/multiformats/go-multibase"
)

type c14BaseCase struct {
	which int
	in    []byte
	out   []byte
	ok    bool
	what  string
}

var c14Base []c14BaseCase
var c14BaseSeen = map[string]bool{}
var c14ShardFn func(kind int, name, typ, fn string, items []string, n int) error

func c14BaseRecord(which int, in, out []byte, ok bool, what string) {
	k := fmt.Sprintf("%d:%s", which, in)
	if c14BaseSeen[k] {
		return
	}
	c14BaseSeen[k] = true
	c14Base = append(c14Base, c14BaseCase{which, append([]byte{}, in...), append([]byte{}, out...), ok, what})
}

// c14WriteFile writes a case file with its hex literals turned into packed constants defined once
// (Coq 8.16 interprets string literals slowly; the C14 case files are mostly key material)
func c14WriteFile(dir, name, content string) error {
	const mark = "Open Scope N_scope.\n"
	i := strings.Index(content, mark)
	if i < 0 {
		return writeFile(dir, name, content)
	}
	head := content[:i+len(mark)]
	defs, body := internPk(content[i+len(mark):])
	return writeFile(dir, name, "From Coq Require Import Uint63.\nFrom Ucanto Require Import Check_CBOR.\n"+head+defs+body)
}

// the prefixes BaseDec.mb_decode models (mirror of BaseDec.mb_modelled)
func mbModelled(s string) bool {
	if s == "" {
		return true
	}
	if strings.ContainsRune("0cCtTkK", rune(s[0])) {
		return false
	}
	return !strings.HasPrefix(s, "\xf0\x9f\x9a\x80")
}

var c14Unmodelled int

// what multibase.Decode answers for the whole string
func mbDecodeOracle(s string, what string) ([]byte, bool) {
	_, b, err := mbase.Decode(s)
	ok := err == nil
	if !ok {
		b = nil
	}
	if mbModelled(s) {
		c14BaseRecord(1, []byte(s), b, ok, what)
	} else {
		c14Unmodelled++
	}
	return b, ok
}

func mb64encOracle(b []byte) string {
	s, _ := mbase.Encode(mbase.Base64pad, b)
	c14BaseRecord(3, b, []byte(s), true, "bytes the harness formatted")
	return s
}

// ---------------------------------------------------------------- string mutations

const b58Alphabet = "123456789ABCDEFGHJKLMNPQRSTUVWXYZabcdefghijkmnopqrstuvwxyz"

// near misses of a text in some base: one edit
func c14Mutations(r *rand.Rand, s string) []string {
	var res []string
	ins := []string{"0", "O", "I", "l", "+", "/", "-", "_", "=", " ", "\n", "\r", "\t", "\x00", "\x7f", "\x80", "\xff", "é", "1", "z", "A", "Q"}
	pos := func() int {
		if len(s) == 0 {
			return 0
		}
		return r.Intn(len(s) + 1)
	}
	for _, c := range ins {
		i := pos()
		res = append(res, s[:i]+c+s[i:]) // insertion
		if len(s) > 0 {
			j := r.Intn(len(s))
			res = append(res, s[:j]+c+s[j+1:]) // replacement
		}
		res = append(res, s+c, c+s)
	}
	if len(s) > 0 {
		j := r.Intn(len(s))
		res = append(res, s[:j]+s[j+1:], s[:len(s)-1], s[1:])
	}
	if len(s) > 1 {
		res = append(res, s[:len(s)-2])
	}
	return res
}

func randBytesLead0(r *rand.Rand) []byte {
	n := []int{0, 1, 2, 3, 4, 5, 7, 8, 16, 31, 32, 33, 34, 36, 64, 68}[r.Intn(16)]
	b := randBytes(r, n)
	switch r.Intn(5) {
	case 0: // leading zero bytes
		for i := 0; i < len(b) && i < 1+r.Intn(4); i++ {
			b[i] = 0
		}
	case 1: // all zero
		for i := range b {
			b[i] = 0
		}
	case 2: // small number
		for i := 0; i+1 < len(b); i++ {
			b[i] = 0
		}
	case 3: // all ones
		for i := range b {
			b[i] = 0xff
		}
	}
	return b
}

// ---------------------------------------------------------------- signer.Format / signer.Parse

// the texts of the signer bytes in every base multibase.Decode knows and the model has
func c14KeyTexts(b []byte) map[string]string {
	low32 := base32.NewEncoding("abcdefghijklmnopqrstuvwxyz234567").WithPadding(base32.NoPadding)
	hex32 := base32.NewEncoding("0123456789ABCDEFGHIJKLMNOPQRSTUV").WithPadding(base32.NoPadding)
	z, _ := mbase.Encode(mbase.Base58BTC, b)
	zf, _ := mbase.Encode(mbase.Base58Flickr, b)
	return map[string]string{
		"base64pad":      "M" + base64.StdEncoding.EncodeToString(b),
		"base64":         "m" + base64.RawStdEncoding.EncodeToString(b),
		"base64url":      "u" + base64.RawURLEncoding.EncodeToString(b),
		"base64urlpad":   "U" + base64.URLEncoding.EncodeToString(b),
		"base58btc":      z,
		"base58flickr":   zf,
		"base16":         "f" + hex.EncodeToString(b),
		"base16upper":    "F" + strings.ToUpper(hex.EncodeToString(b)),
		"base32":         "b" + low32.EncodeToString(b),
		"base32upper":    "B" + strings.ToUpper(low32.EncodeToString(b)),
		"base32hexupper": "V" + hex32.EncodeToString(b),
		"identity":       "\x00" + string(b),
	}
}

var c14TextOrder = []string{"base64pad", "base64", "base64url", "base64urlpad", "base58btc", "base58flickr", "base16", "base16upper", "base32", "base32upper", "base32hexupper", "identity"}

func c14SignerStrings(r *rand.Rand, keys []c14Key, tier string, addIdx func(file, kind string, rp map[string]any), file string) (sp, sf []string, n map[string]int) {
	n = map[string]int{}
	seen := map[string]bool{}
	addSP := func(alg int, s string, what string) {
		k := fmt.Sprintf("%d:%s", alg, s)
		if seen[k] {
			return
		}
		seen[k] = true
		if !mbModelled(s) {
			c14Unmodelled++
			n["unmodelled prefix (skipped)"]++
			return
		}
		var t c14Tabs
		if b, ok := mbDecodeOracle(s, "signer key string / near miss"); ok {
			if alg == 1 {
				t.addPrivFor(b)
			} else if len(b) > 36 {
				t.addPubFor(0, b[34:])
			}
		}
		sg, err := algParseSigner(alg, s)
		obs := "None"
		if err == nil {
			obs = fmt.Sprintf("(Some (%s, %s, %s))", hx(sg.Encode()), hx(sg.Verifier().Encode()), hx(sg.DID().Bytes()))
			n["ok"]++
		} else {
			n["error"]++
		}
		sp = append(sp, fmt.Sprintf("(%s, %s, %s, %s, %s)", coqN(uint64(alg)), hxs(s), tabStr(t.pub), tabStr(t.priv), obs))
		addIdx(file+"#6", "signer-parse", map[string]any{"what": what, "alg": alg, "string_hex": hex.EncodeToString([]byte(s)), "string": fmt.Sprintf("%.80q", s), "ok": err == nil})
	}
	firstRSA := true
	for i, k := range keys {
		// base58 of a 1200-byte RSA private key costs the model seconds (bignum radix conversion): one key is enough
		b58ok := k.alg == 0 || firstRSA
		if k.alg == 1 {
			firstRSA = false
		}
		str, err := algFormatSigner(k.alg, k.signer)
		if err != nil {
			continue
		}
		if want := mb64encOracle(k.sb); want != str {
			// Format is not multibase base64pad of Encode(): still compared by the model below
			_ = want
		}
		sf = append(sf, fmt.Sprintf("(%s, %s)", hx(k.sb), hxs(str)))
		addIdx(file+"#7", "signer-format", map[string]any{"alg": k.alg, "signer": hex.EncodeToString(k.sb), "Format()": str})
		texts := c14KeyTexts(k.sb)
		for alg := 0; alg < 2; alg++ {
			if alg != k.alg && i%4 != 0 {
				// the other algorithm's parser: a few keys are enough
				addSP(alg, str, "Format() given to the other algorithm's Parse")
				continue
			}
			addSP(alg, str, "Format()")
			for _, name := range c14TextOrder {
				if strings.HasPrefix(name, "base58") && !(b58ok && alg == k.alg) {
					continue
				}
				addSP(alg, texts[name], "signer bytes in "+name)
			}
			// padding and alphabet near misses of the base64pad form
			body := strings.TrimRight(str[1:], "=")
			pads := len(str) - 1 - len(body)
			addSP(alg, "M"+body, "padding removed")
			addSP(alg, "M"+body+strings.Repeat("=", pads+1), "one padding character too many")
			addSP(alg, "M"+body+"====", "four padding characters")
			if pads > 0 {
				addSP(alg, "M"+body+strings.Repeat("=", pads-1), "one padding character missing")
			}
			addSP(alg, "m"+str[1:], "padded text under the unpadded prefix")
			addSP(alg, "M"+strings.NewReplacer("+", "-", "/", "_").Replace(str[1:]), "url alphabet under the std prefix")
			addSP(alg, "U"+strings.NewReplacer("+", "-", "/", "_").Replace(str[1:]), "url alphabet under the urlpad prefix")
			addSP(alg, "M"+body[:len(body)-1]+strings.Repeat("=", pads), "one character short (length = 3 mod 4)")
			addSP(alg, "M"+body+"A", "one character more")
			addSP(alg, str[1:], "multibase prefix missing")
			addSP(alg, strings.ToLower(str[:1])+body, "prefix m, no padding")
			addSP(alg, str+"\n", "trailing line feed")
			addSP(alg, str[:9]+"\r\n"+str[9:], "line break inside")
			addSP(alg, str[:9]+" "+str[9:], "blank inside")
			addSP(alg, " "+str, "leading blank")
			addSP(alg, str+" ", "trailing blank")
			if pads > 0 {
				// the bits below the last byte are not checked by the decoder
				last := body[len(body)-1]
				idx := strings.IndexByte("ABCDEFGHIJKLMNOPQRSTUVWXYZabcdefghijklmnopqrstuvwxyz0123456789+/", last)
				alt := "ABCDEFGHIJKLMNOPQRSTUVWXYZabcdefghijklmnopqrstuvwxyz0123456789+/"[idx^1]
				addSP(alg, "M"+body[:len(body)-1]+string(alt)+strings.Repeat("=", pads), "dropped bits not zero")
			}
			nm := 6
			if tier == "thorough" {
				nm = 40
			}
			for _, name := range []string{"base64pad", "base64url", "base58btc", "base32", "base16"} {
				if name == "base58btc" && k.alg == 1 {
					continue
				}
				ms := c14Mutations(r, texts[name][1:])
				for j := 0; j < nm; j++ {
					addSP(alg, texts[name][:1]+ms[r.Intn(len(ms))], "one edit of the "+name+" text")
				}
			}
		}
	}
	for alg := 0; alg < 2; alg++ {
		for _, s := range []string{"", "M", "m", "z", "u", "U", "f", "b", "Z", "\x00", "M=", "M==", "M===", "M====", "MA", "MA=", "MAA==", "MAAA=", "MAAAA", "x", "é", "\xff", "M\n", "z1", "f0"} {
			addSP(alg, s, "short string")
		}
	}
	return sp, sf, n
}

// ---------------------------------------------------------------- base tables

var c14B58NearMiss = []string{
	"", "1", "11", "111111111111111111111111111111111", "2", "z", "zz", "12", "121", "1z", "z1", "0", "O", "I", "l", "+", "/", "-", "_", "=",
	"10", "1O", "1I", "1l", "2+", "2/", "20", "2O", "2I", "2l", "02", "O2", "I2", "l2", " ", "2 ", " 2", "2 2", "2\n", "\n2", "2\t", "2\r\n", "\x00", "2\x00", "\x7f", "\x80", "\xff", "2\xff",
	"é", "2é", "例", "🚀", "\xc3", "\xe2\x82", "6Mk", "6MkeTG3bFFSLYVU7VqhgZxqr6YzpaGrQtFMh1uvqGy1vDnP", "StV1DL6CwTryKyV", "Q", "TH6gADdcuEQ",
	"JxF12TrwUP45BMd", "2NEpo7TZRRrLZSi2U", "2NEpo7TZRRrLZSi2U ", "2NEpo7TZRRrLZSi2U=", "3yZe7d", "1111111111", "5Q", "5R", "zzzzzzzzzzz", "zzzzzzzzzzzzzzzzzzzzzz",
}

var c14MBNearMiss = []string{
	"", "M", "m", "u", "U", "z", "Z", "f", "F", "b", "B", "v", "V", "\x00", "\x00\x00", "\x00abc\xff", "\x01", "1", "9", "x", "é", "\xff", "\xf0\x9f", "=", "M=", "M==", "M===", "M====",
	"MA", "MA=", "MA==", "MAA", "MAA=", "MAA==", "MAAA", "MAAA=", "MAAA==", "MAAAA", "MAAAA=", "MAAAA===", "MAAAAA===", "MAAAAAA==", "MAAAAAAA=", "MAAAAAAAA",
	"MZg==", "MZg=", "MZg", "MZh==", "MZm8=", "MZm8", "MZm9=", "MZm9v", "MZm9v=", "MZm9vYg==", "MZm9vYg=", "MZm9vYg", "MZm9vYmE=", "MZm9vYmFy",
	"M-_8=", "M+/8=", "U-_8=", "U+/8=", "u-_8", "u+/8", "m+/8", "m-_8", "m+/8=", "u-_8=", "mZg", "mZg==", "mZ", "mZm9vY", "uZm9vY", "mZm8", "mZm9", "mZm8\n", "m\nZm8", "mZ\r\nm8", "m Zm8", "mZm8 ",
	"MZg=\n=", "MZg\n==", "M\nZg==", "MZg==\n", "MZg== ", "MZg==Zg==", "MZm9vZg==", "MZg==Zm9v", "M=Zg=", "MZ=g=", "MZ===", "MZg=A", "MTQ==", "MTR==", "MTf==", "mTQ", "mTR",
	"f", "f0", "f00", "f0g", "fg0", "fAbCd", "FabCD", "f 00", "f00 ", "f666f6f", "f666F6F", "F666f6f",
	"b", "ba", "bmy", "bmz", "bmzx", "bmzxq", "bmzxw6", "bmzxw6y", "bmzxw6yq", "bmzxw6ytb", "bmzxw6ytbo", "bmzxw6ytboi", "BMZXW6YTBOI", "bMZXW6ytboi", "bmzxw6ytboi=", "bmzxw6ytboi======", "bmy======", "b1", "b0", "b8", "b9",
	"bm\ny", "bmy ", "b=", "bmy\xff", "bmzxw6ytb\xff", "vco", "vCO", "vcpnmu", "VCPNMUOJ1", "vw", "Vw", "v8", "v=",
	"z", "z1", "z11", "z2", "z0", "zO", "zI", "zl", "z2NEpo7TZRRrLZSi2U", "Z2neQP7tzrrRlzsI2u", "Z2NEpo7TZRRrLZSi2U", "z2neQP7tzrrRlzsI2u", "Z", "Z1", "Z0", "Zl", "ZO", "ZI", "z ", "Z ", "zé",
}

func c14WriteBase(r *rand.Rand, o genOpts, keys []c14Key, addIdx func(file, kind string, rp map[string]any)) (map[string]any, error) {
	nRand, nLong := 60, 2
	if o.tier == "thorough" {
		nRand, nLong = 2500, 12
	}
	for _, s := range c14B58NearMiss {
		b58decOracle(s)
	}
	for _, s := range c14MBNearMiss {
		mbDecodeOracle(s, "multibase near miss")
	}
	for i := 0; i < nRand; i++ {
		b := randBytesLead0(r)
		e := b58encOracle(b)
		mb64encOracle(b)
		ms := c14Mutations(r, e)
		for j := 0; j < 4; j++ {
			b58decOracle(ms[r.Intn(len(ms))])
		}
		// a random string over the alphabet (every such string is in the domain)
		n := r.Intn(50)
		var sb strings.Builder
		for j := 0; j < r.Intn(4); j++ {
			sb.WriteByte('1')
		}
		for j := 0; j < n; j++ {
			sb.WriteByte(b58Alphabet[r.Intn(58)])
		}
		b58decOracle(sb.String())
		texts := c14KeyTexts(b)
		for _, name := range c14TextOrder {
			mbDecodeOracle(texts[name], "random bytes in "+name)
			ms := c14Mutations(r, texts[name][1:])
			for j := 0; j < 2; j++ {
				mbDecodeOracle(texts[name][:1]+ms[r.Intn(len(ms))], "one edit of a "+name+" text")
			}
		}
		// a random string over the base64 alphabets of any length (1 mod 4 included), any padding
		m := r.Intn(14)
		sb.Reset()
		for j := 0; j < m; j++ {
			sb.WriteByte("ABCDEFGHIJKLMNOPQRSTUVWXYZabcdefghijklmnopqrstuvwxyz0123456789+/-_"[r.Intn(66)])
		}
		body := sb.String()
		mbDecodeOracle(string("MmuU"[r.Intn(4)])+body+strings.Repeat("=", r.Intn(4)), "random base64 characters and padding")
		m = r.Intn(20)
		sb.Reset()
		for j := 0; j < m; j++ {
			sb.WriteByte("abcdefghijklmnopqrstuvwxyz234567ABCDEFGHIJKLMNOPQRSTUV0189"[r.Intn(58)])
		}
		mbDecodeOracle(string("bBvV"[r.Intn(4)])+sb.String(), "random base32 characters")
	}
	// very long strings
	for i := 0; i < nLong; i++ {
		// base58 is a bignum radix conversion in the model (quadratic): 500 characters; base64 is linear: 2000
		b := randBytes(r, 300+r.Intn(100))
		if i%2 == 1 {
			copy(b, make([]byte, 40))
		}
		e := b58encOracle(b)
		b58decOracle(e[:len(e)-1] + "0")
		b58decOracle(strings.Repeat("1", 700) + e[:20])
		b = randBytes(r, 600+r.Intn(900))
		mbDecodeOracle(mb64encOracle(b), "long base64pad")
		mbDecodeOracle("m"+base64.StdEncoding.EncodeToString(b), "long text, maybe padded, under m")
		mbDecodeOracle("z"+strings.Repeat("1", 3000), "3000 leading '1's")
		mbDecodeOracle("f"+strings.Repeat("00ff", 1000), "long base16")
	}
	for _, k := range keys {
		// the key strings themselves, and their did:key payloads
		mbDecodeOracle(mb64encOracle(k.sb), "Format() of a key")
		b58decOracle(k.didStr[len("did:key:z"):])
		mbDecodeOracle(k.didStr[len("did:key:"):], "did:key payload through multibase.Decode")
	}

	names := []string{"base-b58dec", "base-multibase", "base-b58enc", "base-mb64enc"}
	var items []string
	counts := map[string]map[string]int{}
	file := "cases_C14_prin.v"
	for _, c := range c14Base {
		exp := coqOptBytes(c.out, c.ok)
		items = append(items, fmt.Sprintf("(%s, %s, %s)", coqN(uint64(c.which)), hx(c.in), exp))
		rp := map[string]any{"what": c.what, "which": c.which, "input_hex": hex.EncodeToString(c.in), "input": fmt.Sprintf("%.100q", c.in), "go_ok": c.ok, "go_result_hex": hex.EncodeToString(c.out),
			"coq": fmt.Sprintf("check_base (%s, %s, %s)", coqN(uint64(c.which)), hx(c.in), exp)}
		addIdx(file+"#8", names[c.which], rp)
		if counts[names[c.which]] == nil {
			counts[names[c.which]] = map[string]int{}
		}
		if c.ok {
			counts[names[c.which]]["accepted"]++
		} else {
			counts[names[c.which]]["rejected"]++
		}
	}
	nsh := 8
	if o.tier == "thorough" {
		nsh = 32
	}
	if c14ShardFn == nil {
		return nil, fmt.Errorf("c14: shard writer not set")
	}
	if err := c14ShardFn(8, "base", "N * bstr * option bstr", "check_bases", items, nsh); err != nil {
		return nil, err
	}
	return map[string]any{"pairs": len(items), "by_function": counts, "unmodelled_prefix_skipped": c14Unmodelled}, nil
}
