package main

// gen_c16_chain.go — C16 at the level of CHAINS: what an ability / resource pattern grants must also be what it grants
// when it sits one or two delegations up (a pattern derived from a wider pattern: "store/add" <- "store/*" <- "*";
// a DID resource <- a DID prefix pattern <- "ucan:*"), with the capability's resource read by schema.DIDString as real
// services declare it.  The worlds go through the validator model like those of C01.

import "fmt"

func init() {
	gens["C16W"] = func(o genOpts) error {
		st := newWorldStats()
		labels := map[int]string{}
		var worlds []*World
		id := 0
		far := 4000000000
		// the last four differ from a matching spelling only by letter case: abilities are compared exactly
		abil := []string{"store/add", "store/*", "*", "stor/*", "store/ad*", "store/add/*", "Store/*", "store/Add", "STORE/ADD", "Store/Add"}
		narrow := map[string]bool{"stor/*": true, "store/ad*": true, "Store/*": true, "store/Add": true, "STORE/ADD": true, "Store/Add": true}
		type resCase struct {
			claimed string
			pats    []string
		}
		resources := []resCase{
			{"did:mailto:web.mail:alice", []string{"did:mailto:web.mail:alice", "did:mailto:web.mail:*", "did:mailto:*", "did:*", "ucan:*", "did:mailto:web.mail:al*", "did:mailto:web.mail:bob*", "did:mailto:web.mail:alice*"}},
			// DID URLs (a DID followed by a path): distinct resources of one DID stay distinct
			{"did:web:example.com/users/alice", []string{"did:web:example.com/users/alice", "did:web:example.com/users/*", "did:web:example.com/*", "ucan:*", "did:web:example.com/users/bob", "did:web:example.com", "did:web:example.com/users/bob/*"}},
			{"https://example.com/a/b", []string{"https://example.com/a/b", "https://example.com/a/*", "https://example.com/*", "ucan:*", "https://example.org/*"}},
		}
		add := func(w *World, label string) {
			w.ID = id
			labels[id] = label
			worlds = append(worlds, w)
			id++
		}
		for depth := 1; depth <= 3; depth++ {
			// ability patterns: every combination over the levels (level 1 = root)
			var rec func(level int, pats []string)
			rec = func(level int, pats []string) {
				if level > depth {
					cast := newCast(o.seed*6007 + int64(id))
					service := cast.Ed("service")
					with := cast.Ed("p0").DID.String()
					specs := linearChain(cast, service, "store/add", with, depth, far, Cav{})
					for i := 0; i < depth; i++ {
						specs[i].Caps[0].Can = pats[i]
					}
					add(&World{Kind: "c16-ability-chain", Cast: cast, Can: "store/add", Inv: "inv", Specs: specs, Ctx: baseCtx(service), DIDWith: true},
						fmt.Sprintf("ability patterns root..leaf %v, claimed store/add", pats))
					return
				}
				for _, p := range abil {
					if depth == 3 && narrow[p] && level != 2 {
						continue // keep the product small: the non-matching spellings at the middle level only
					}
					rec(level+1, append(append([]string{}, pats...), p))
				}
			}
			rec(1, nil)
			// resource patterns
			for _, rc := range resources {
				var recw func(level int, pats []string)
				recw = func(level int, pats []string) {
					if level > depth {
						cast := newCast(o.seed*6011 + int64(id))
						service := cast.Ed("service")
						specs := linearChain(cast, service, "store/add", rc.claimed, depth, far, Cav{})
						for i := 0; i < depth; i++ {
							specs[i].Caps[0].With = pats[i]
						}
						w := &World{Kind: "c16-resource-chain", Cast: cast, Can: "store/add", Inv: "inv", Specs: specs, Ctx: baseCtx(service)}
						w.DIDWith = rc.claimed[:4] == "did:"
						w.Ctx.SelfIssued = false
						for _, p := range append([]string{rc.claimed}, rc.pats...) {
							w.Ctx.Owners[p] = cast.Ed("p0") // the root principal owns the resource under every spelling
						}
						add(w, fmt.Sprintf("resource patterns root..leaf %v, claimed %s", pats, rc.claimed))
						return
					}
					for pi, p := range rc.pats {
						if depth == 3 && pi >= 5 && level != 2 {
							continue
						}
						recw(level+1, append(append([]string{}, pats...), p))
					}
				}
				recw(1, nil)
			}
		}
		return finishWorlds(o, "C16W", worlds, labels, st, 16, nil)
	}
}
