package main

// servebytes.go — correspondence for coq/ServerBytes.v (serve_bytes): a batch is sent once more
// through client.Execute, over a channel that RECORDS THE REQUEST BODY, to a fresh server of the
// same world.  The case file carries the body, the sha2-256 digests of its blocks (go-multihash),
// the observed signature checks, the blocks the proof resolver knows, the validation context and
// the answer.  The Coq side decodes the body (MessageBytes.decode_message), reads every block as a
// token (TokenView.view_block) and runs Server.execute — no token rendered by the harness is used.

import (
	"bufio"
	"bytes"
	"encoding/hex"
	"encoding/json"
	"fmt"
	"io"
	"os"
	"path/filepath"
	"sort"
	"strings"

	nethttp "net/http"

	"github.com/ipfs/go-cid"
	"github.com/ipld/go-car/util"
	mh "github.com/multiformats/go-multihash"
	"github.com/storacha/go-ucanto/core/delegation"
	"github.com/storacha/go-ucanto/server"
	"github.com/storacha/go-ucanto/transport"
	uhttp "github.com/storacha/go-ucanto/transport/http"
)

// properties whose batch generators emit serve_bytes cases (VERIF_SERVEBYTES=all|none|C08,… overrides);
// one batch in serveBytesEvery is sent
var serveBytesProps = map[string]bool{"C08": true, "C11": true}
var serveBytesEvery = 4
var serveBytesMax = 800 // at most this many recorded requests per run
var serveBytesPerFile = 16

// the C11 batches run in a child process (sub-command c11child): it writes each case to a file of the
// output directory, the parent's flushServeBytes collects them
func sbChildOut() (string, bool) {
	if len(os.Args) < 2 || os.Args[1] != "c11child" {
		return "", false
	}
	for i, a := range os.Args {
		if a == "-out" && i+1 < len(os.Args) {
			return os.Args[i+1], true
		}
	}
	return ".", true
}

func serveBytesEnabled() bool {
	prop := ""
	if _, child := sbChildOut(); child {
		prop = "C11"
	} else if len(os.Args) >= 3 && os.Args[1] == "gen" {
		prop = os.Args[2]
	} else {
		return false
	}
	switch v := os.Getenv("VERIF_SERVEBYTES"); v {
	case "":
		return serveBytesProps[prop]
	case "all":
		return true
	case "none":
		return false
	default:
		for _, p := range strings.Split(v, ",") {
			if p == prop {
				return true
			}
		}
		return false
	}
}

// recChannel forwards a request to the server and keeps the bytes of its body
type recChannel struct {
	srv  server.ServerView
	body []byte
	hdr  nethttp.Header
	n    int
}

func (c *recChannel) Request(req transport.HTTPRequest) (transport.HTTPResponse, error) {
	b, err := io.ReadAll(req.Body())
	if err != nil {
		return nil, err
	}
	c.body = b
	c.hdr = req.Headers().Clone()
	c.n++
	return c.srv.Request(uhttp.NewHTTPRequest(bytes.NewReader(b), req.Headers()))
}

var sbCases []string
var sbDids [][][]byte // per case: the DID byte strings of its tokens and keys
var sbSeen = 0
var sbBusy = false
var sbStats = map[string]int{}

// serveBytesHook is called at the end of Batch.CoqFor (the batch has been run and rendered).
func serveBytesHook(b *Batch, names []string) {
	if sbBusy || !serveBytesEnabled() {
		return
	}
	sbSeen++
	if (serveBytesEvery > 1 && sbSeen%serveBytesEvery != 1) || len(sbCases) >= serveBytesMax {
		return
	}
	sbBusy = true
	defer func() { sbBusy = false }()
	w := b.W
	obs := &BatchObs{}
	var ch *recChannel
	if p := recovered(func() {
		srv, err := b.newServer(obs)
		if err != nil {
			obs.ExecErr = "server: " + err.Error()
			return
		}
		ch = &recChannel{srv: srv}
		b.runOn(ch, names, obs)
	}); p != nil {
		sbStats["panics"]++
		return
	}
	if ch == nil || ch.n != 1 || strings.HasPrefix(obs.ExecErr, "hang") {
		sbStats["skipped"]++
		return
	}
	bcase := b.CoqFor(names, obs) // sbBusy: no recursion
	caseStr, dids, why := sbRender(b, ch.body, bcase, nil)
	if why != "" {
		sbStats[why]++
		return
	}
	sbEmit(w.ID, caseStr, dids, obs, "")
	// servebytes_bound.go: the same request once more with a token travelling under a CID that is not the
	// dag-cbor / sha2-256 CID of its bytes (the library reads no field from such a block)
	sbRelabelled(b, names, ch)
}

// sbRender: the case record for a request body: the sha2-256 digests of every block the world knows and of every block
// of the body, the observed signature checks of every token of the world (and of `extra`: tokens made for this body
// only), the blocks the proof resolver knows, the link numbering, and the rendered answer.
func sbRender(b *Batch, body []byte, bcase string, extra []delegation.Delegation) (caseStr string, dids [][]byte, why string) {
	w := b.W
	// every block the world knows: digests, signature observations
	keys := castKeys(w.Cast)
	digests := map[string]string{}
	sigs := map[string][]int{}
	conflict := false
	var ext []string
	extSeen := map[string]bool{}
	observe := func(d delegation.Delegation) {
		if m := d.Data().Model(); m != nil {
			dids = append(dids, m.Iss, m.Aud)
		}
		sk, _ := tvObserve(d, keys, nil, nil)
		s := string(d.Signature().Bytes())
		if old, ok := sigs[s]; ok && fmt.Sprint(old) != fmt.Sprint(sk) {
			conflict = true // two tokens carry the same signature bytes with different verdicts: not expressible per signature
		}
		sigs[s] = sk
	}
	for _, name := range w.order {
		bt := w.built[name]
		for blk, err := range bt.Dlg.Blocks() {
			if err != nil {
				continue
			}
			sum, err := mh.Sum(blk.Bytes(), mh.SHA2_256, -1)
			if err != nil {
				continue
			}
			dm, err := mh.Decode(sum)
			if err != nil {
				continue
			}
			digests[string(blk.Bytes())] = fmt.Sprintf("(%s, %s)", hx(blk.Bytes()), hx(dm.Digest))
			if w.Ctx.Resolvable[name] {
				k := blk.Link().String()
				if cd, err := cid.Decode(k); err == nil && !extSeen[k] {
					extSeen[k] = true
					ext = append(ext, fmt.Sprintf("(%s, %s)", hx(cd.Bytes()), hx(blk.Bytes())))
				}
			}
		}
		observe(bt.Dlg)
	}
	for _, d := range extra {
		observe(d)
	}
	if conflict {
		return "", nil, "skipped_signature_conflict"
	}
	for _, d := range dids {
		if len(d) > 600 {
			// base58 is quadratic: the DID string of a 2 KB "key" costs the Coq side ten seconds; such tokens stay with
			// the decoded-token correspondence of the batch
			return "", nil, "skipped_huge_did"
		}
	}
	// every block of the body (the root block of the message, tokens made for this body only): its digest — the model
	// needs it for the CAR reader's hash check AND for the dag-cbor / sha2-256 binding of a block to its CID
	for _, blk := range sbBlocksOf(body) {
		if _, ok := digests[string(blk)]; !ok {
			sum, _ := mh.Sum(blk, mh.SHA2_256, -1)
			dm, _ := mh.Decode(sum)
			digests[string(blk)] = fmt.Sprintf("(%s, %s)", hx(blk), hx(dm.Digest))
		}
	}
	var ds, ss, ks, ls []string
	for _, v := range digests {
		ds = append(ds, v)
	}
	for s, k := range sigs {
		ss = append(ss, fmt.Sprintf("(%s, %s)", hx([]byte(s)), coqNList(k)))
	}
	for _, k := range keys {
		dids = append(dids, k.did.Bytes())
		ks = append(ks, fmt.Sprintf("(%d, %s, %s)", k.id, hx(k.did.Bytes()), hxs(k.alg)))
	}
	for i, s := range w.links {
		if cd, err := cid.Decode(s); err == nil {
			ls = append(ls, fmt.Sprintf("(%s, %d)", hx(cd.Bytes()), i+1))
		}
	}
	sortStrings(ds)
	sortStrings(ss)
	caseStr = fmt.Sprintf("{| sb_body := %s;\n sb_digests := [%s];\n sb_links := [%s];\n sb_keys := [%s];\n sb_sigs := [%s];\n sb_ext := [%s];\n sb_case := %s |}",
		hx(body), strings.Join(ds, "; "), strings.Join(ls, "; "), strings.Join(ks, "; "), strings.Join(ss, "; "), strings.Join(ext, "; "), bcase)
	return caseStr, dids, ""
}

// sbEmit files a rendered case (in a child process: as a file the parent collects)
func sbEmit(id int, caseStr string, dids [][]byte, obs *BatchObs, stat string) {
	if out, child := sbChildOut(); child {
		var hd []string
		for _, d := range dids {
			hd = append(hd, fmt.Sprintf("%x", d))
		}
		writeJSON(out, fmt.Sprintf("sbcase_%08d.json", id), map[string]any{"case": caseStr, "dids": hd, "stat": stat})
		return
	}
	sbCases = append(sbCases, caseStr)
	sbDids = append(sbDids, dids)
	sbStats["requests"]++
	if stat != "" {
		sbStats[stat]++
	}
	if obs.ExecErr != "" {
		sbStats["requests_failed_as_a_whole"]++
	}
	sbStats["handler_calls"] += len(obs.Calls)
	for _, r := range obs.Rcpts {
		sbStats["receipt:"+r.Class]++
	}
}

func sortStrings(xs []string) {
	for i := 1; i < len(xs); i++ {
		for j := i; j > 0 && xs[j] < xs[j-1]; j-- {
			xs[j], xs[j-1] = xs[j-1], xs[j]
		}
	}
}

// sbBlocksOf: the payloads of the sections of a CAR body (through go-car's own section reader, as the C12
// reference walk does)
func sbBlocksOf(body []byte) [][]byte {
	var res [][]byte
	br := bufio.NewReader(bytes.NewReader(body))
	if _, err := util.LdRead(br); err != nil {
		return nil
	}
	for {
		if _, err := br.Peek(1); err != nil {
			return res
		}
		data, err := util.LdRead(br)
		if err != nil {
			return res
		}
		n, _, err := cid.CidFromReader(bytes.NewReader(data))
		if err != nil {
			continue
		}
		res = append(res, data[n:])
	}
}

// flushServeBytes writes sbytes_<prop>_NN.v (called by writeBatchCases).
func flushServeBytes(dir, prefix string) error {
	// cases written by a child process
	if files, _ := filepath.Glob(filepath.Join(dir, "sbcase_*.json")); len(files) > 0 {
		sort.Strings(files)
		for _, f := range files {
			var rec struct {
				Case string   `json:"case"`
				Dids []string `json:"dids"`
				Stat string   `json:"stat"`
			}
			if b, err := os.ReadFile(f); err == nil && json.Unmarshal(b, &rec) == nil {
				var dd [][]byte
				for _, h := range rec.Dids {
					if d, err := hex.DecodeString(h); err == nil {
						dd = append(dd, d)
					}
				}
				sbCases = append(sbCases, rec.Case)
				sbDids = append(sbDids, dd)
				sbStats["requests"]++
				if rec.Stat != "" {
					sbStats[rec.Stat]++
				}
			}
			os.Remove(f)
		}
	}
	if len(sbCases) == 0 {
		return nil
	}
	cases, cdids := sbCases, sbDids
	sbCases, sbDids, sbSeen = nil, nil, 0
	tag := strings.TrimPrefix(prefix, "cases_")
	shards := 16
	if need := (len(cases) + serveBytesPerFile - 1) / serveBytesPerFile; need > shards {
		shards = need
	}
	if shards > len(cases) {
		shards = len(cases)
	}
	per := (len(cases) + shards - 1) / shards
	for k := 0; k*per < len(cases); k++ {
		hi := (k + 1) * per
		if hi > len(cases) {
			hi = len(cases)
		}
		var sb strings.Builder
		sb.WriteString("From Coq Require Import Uint63.\nFrom Ucanto Require Import Base Pattern Time Validator Check_Validator Server Check_Server Check_CBOR Check_Json Check_ServerBytes.\nOpen Scope N_scope.\n")
		dset := map[string]bool{}
		var ds []string
		for _, dd := range cdids[k*per : hi] {
			for _, d := range dd {
				if len(d) > 0 && !dset[string(d)] {
					dset[string(d)] = true
					ds = append(ds, hx(d))
				}
			}
		}
		sortStrings(ds)
		defs, body := internPacked("Definition dids : list bstr := " + coqList(ds) + ".\nDefinition cases : list sbcase := " + coqList(cases[k*per:hi]) + ".\n")
		sb.WriteString(defs)
		sb.WriteString(body)
		sb.WriteString("Definition tbl : list (bstr * bstr) := Eval vm_compute in (did_table dids).\n")
		sb.WriteString("Definition M := Eval vm_compute in check_sbs tbl cases.\nPrint M.\n")
		if err := writeFile(dir, fmt.Sprintf("sbytes_%s_%02d.v", tag, k), sb.String()); err != nil {
			return err
		}
	}
	st := map[string]any{}
	for k, v := range sbStats {
		st[k] = v
	}
	sbStats = map[string]int{}
	return writeJSON(dir, "sbytes_stats_"+tag+".json", st)
}
