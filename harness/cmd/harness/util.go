package main

import (
	"encoding/hex"
	"encoding/json"
	"fmt"
	"os"
	"path/filepath"
	"strings"
)

// hx renders a byte string as the Coq term (hx "…") understood by Base.hx.
func hx(b []byte) string {
	if len(b) == 0 {
		return "(@nil N)"
	}
	return `(hx "` + hex.EncodeToString(b) + `")`
}

func hxs(s string) string { return hx([]byte(s)) }

func coqList(items []string) string {
	if len(items) == 0 {
		return "[]"
	}
	return "[" + strings.Join(items, ";\n  ") + "]"
}

func coqBool(b bool) string {
	if b {
		return "true"
	}
	return "false"
}

func coqOptZ(p *int) string {
	if p == nil {
		return "None"
	}
	return fmt.Sprintf("(Some (%d)%%Z)", *p)
}

func writeFile(dir, name, content string) error {
	return os.WriteFile(filepath.Join(dir, name), []byte(content), 0o644)
}

func writeJSON(dir, name string, v any) error {
	b, err := json.MarshalIndent(v, "", " ")
	if err != nil {
		return err
	}
	return os.WriteFile(filepath.Join(dir, name), b, 0o644)
}

// recovered runs f and reports whether it panicked (and with what).
func recovered(f func()) (p any) {
	defer func() {
		if r := recover(); r != nil {
			p = r
		}
	}()
	f()
	return nil
}
