package main

import (
	"encoding/hex"
	"encoding/json"
	"fmt"
	"os"
	"path/filepath"
	"regexp"
	"strings"
)

// hx renders a byte string as the Coq term (hx "…") understood by Base.hx.
func hx(b []byte) string {
	if len(b) == 0 {
		return "(@nil N)"
	}
	return `(hx "` + hex.EncodeToString(b) + `")`
}

func hxs(s string) string { return hx([]byte(s)) }

func coqList(items []string) string {
	if len(items) == 0 {
		return "[]"
	}
	return "[" + strings.Join(items, ";\n  ") + "]"
}

func coqBool(b bool) string {
	if b {
		return "true"
	}
	return "false"
}

func coqOptZ(p *int) string {
	if p == nil {
		return "None"
	}
	return fmt.Sprintf("(Some (%d)%%Z)", *p)
}

func writeFile(dir, name, content string) error {
	return os.WriteFile(filepath.Join(dir, name), []byte(content), 0o644)
}

func writeJSON(dir, name string, v any) error {
	b, err := json.MarshalIndent(v, "", " ")
	if err != nil {
		return err
	}
	return os.WriteFile(filepath.Join(dir, name), b, 0o644)
}

// recovered runs f and reports whether it panicked (and with what).
func recovered(f func()) (p any) {
	defer func() {
		if r := recover(); r != nil {
			p = r
		}
	}()
	f()
	return nil
}

var hxRe = regexp.MustCompile(`\(hx "([0-9a-f]*)"\)`)

// internHex replaces every (hx "…") literal by a constant defined once at the
// top of the case file (Coq parses long string literals slowly).
func internHex(body string) (defs string, out string) {
	names := map[string]string{}
	var sb strings.Builder
	out = hxRe.ReplaceAllStringFunc(body, func(m string) string {
		h := hxRe.FindStringSubmatch(m)[1]
		if n, ok := names[h]; ok {
			return n
		}
		n := fmt.Sprintf("s_%d", len(names))
		names[h] = n
		fmt.Fprintf(&sb, "Definition %s : bstr := Eval vm_compute in (hx \"%s\").\n", n, h)
		return n
	})
	return sb.String(), out
}
