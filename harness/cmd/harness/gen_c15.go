package main

// gen_c15.go — C15: no response can crash the client.  A scripted channel answers
// client.Execute with crafted replies; every lookup and every receipt accessor runs under
// recover.  The well-formed-message part is compared with coq/Client.v.

import (
	"bytes"
	"encoding/binary"
	"fmt"
	"io"
	"iter"
	"math/rand"
	"net/http"
	"net/http/httptest"
	"net/url"
	"sort"
	"strings"
	"time"

	"github.com/ipfs/go-cid"
	"github.com/ipld/go-ipld-prime/datamodel"
	cidlink "github.com/ipld/go-ipld-prime/linking/cid"
	"github.com/ipld/go-ipld-prime/node/basicnode"
	mh "github.com/multiformats/go-multihash"
	"github.com/storacha/go-ucanto/client"
	"github.com/storacha/go-ucanto/core/car"
	"github.com/storacha/go-ucanto/core/delegation"
	"github.com/storacha/go-ucanto/core/invocation"
	"github.com/storacha/go-ucanto/core/invocation/ran"
	"github.com/storacha/go-ucanto/core/ipld"
	"github.com/storacha/go-ucanto/core/ipld/block"
	"github.com/storacha/go-ucanto/core/ipld/codec/cbor"
	hsha "github.com/storacha/go-ucanto/core/ipld/hash/sha256"
	mdm "github.com/storacha/go-ucanto/core/message/datamodel"
	"github.com/storacha/go-ucanto/core/receipt"
	rdm "github.com/storacha/go-ucanto/core/receipt/datamodel"
	"github.com/storacha/go-ucanto/core/result"
	"github.com/storacha/go-ucanto/core/result/ok"
	"github.com/storacha/go-ucanto/transport"
	thttp "github.com/storacha/go-ucanto/transport/http"
	"github.com/storacha/go-ucanto/ucan"
)

type scripted struct {
	status int
	body   []byte
	hdr    http.Header
	fail   bool
}

func (s *scripted) Request(req transport.HTTPRequest) (transport.HTTPResponse, error) {
	if req.Body() != nil {
		io.Copy(io.Discard, req.Body())
	}
	if s.fail {
		return nil, fmt.Errorf("connection refused")
	}
	if s.status != 200 {
		// what transport/http's channel does with a non-200 reply
		return nil, thttp.NewHTTPError("HTTP Request failed", s.status, s.hdr)
	}
	return thttp.NewHTTPResponse(s.status, bytes.NewReader(s.body), s.hdr), nil
}

// a crafted reply: roots + blocks
type reply struct {
	Label  string
	Roots  []ipld.Link
	Blocks []ipld.Block
	Raw    []byte // when set, the body is these bytes
	Status int
	// "" = scripted channel; otherwise the reply is served by a real HTTP server through transport/http's channel:
	// cl (Content-Length), chunked (flushed, length unknown), close (HTTP/1.0, close-delimited), short (body shorter than Content-Length)
	Framing       string
	CT            string // Content-Type override
	NoInvocations int    // 1: client.Execute(nil, conn); 2: client.Execute(empty slice, conn)
	// what the harness knows about the message it built (for the model)
	HasMsg   bool        // the first root is a decodable agent message block that is present
	Report   [][2]string // (key string, receipt link string); nil when absent
	HasRep   bool
	Lookups  []ipld.Link
	RcptInfo map[string]string // receipt link -> "valid" | "missing" | "undecodable"
}

func encodeMsg(exec []ipld.Link, report *mdm.ReportModel) (ipld.Block, error) {
	m := mdm.AgentMessageModel{UcantoMessage7: &mdm.DataModel{Execute: exec, Report: report}}
	return block.Encode(&m, mdm.Type(), cbor.Codec, hsha.Hasher)
}

func carBytes(roots []ipld.Link, blocks []ipld.Block) []byte {
	r := car.Encode(roots, func(yield func(ipld.Block, error) bool) {
		for _, b := range blocks {
			if !yield(b, nil) {
				return
			}
		}
	})
	bts, _ := io.ReadAll(r)
	return bts
}

// tamperReceipt re-encodes a receipt root with one field changed
func tamperReceipt(rc receipt.AnyReceipt, how string) (ipld.Block, error) {
	var m rdm.ReceiptModel[ipld.Node, ipld.Node]
	if err := block.Decode(rc.Root(), &m, rdm.TypeSystem().TypeByName("Receipt"), cbor.Codec, hsha.Hasher); err != nil {
		return nil, err
	}
	switch how {
	case "sigempty":
		m.Sig = []byte{}
	case "sigcode":
		m.Sig = []byte{0xed, 0xa1, 0x03}
	case "noiss":
		m.Ocm.Iss = nil
	case "badiss":
		s := "not-a-did"
		m.Ocm.Iss = &s
	case "emptyiss":
		s := ""
		m.Ocm.Iss = &s
	case "randangling":
		m.Ocm.Ran = fakeLink(31337)
	case "prfdangling":
		m.Ocm.Prf = []ipld.Link{fakeLink(31338), fakeLink(31339)}
	case "forkdangling":
		m.Ocm.Fx.Fork = []ipld.Link{fakeLink(31340)}
		m.Ocm.Fx.Join = fakeLink(31341)
	case "outneither":
		m.Ocm.Out = rdm.ResultModel[ipld.Node, ipld.Node]{}
	case "outboth":
		a := basicnode.NewString("x")
		var n ipld.Node = a
		m.Ocm.Out = rdm.ResultModel[ipld.Node, ipld.Node]{Ok: &n, Err: &n}
	case "metaweird":
		m.Ocm.Meta = rdm.MetaModel{Keys: []string{"a"}, Values: map[string]datamodel.Node{"a": datamodel.Null}}
	}
	return block.Encode(&m, rdm.TypeSystem().TypeByName("Receipt"), cbor.Codec, hsha.Hasher)
}

type c15Obs struct {
	ExecErr  bool
	Panics   []string
	Gets     []string // per lookup: "" (not found) or the receipt link
	NBlocks  int
	IterErr  bool
	Reads    map[string]string // receipt link -> "error" | "ok"
	Accessor map[string]string // receipt link -> accessors that panicked (comma separated)
}

func guard(obs *c15Obs, what string, f func()) {
	if p := recovered(f); p != nil {
		obs.Panics = append(obs.Panics, fmt.Sprintf("%s: %v", what, p))
	}
}

func runClient(rp *reply, invs []invocation.Invocation, service ucan.Principal) *c15Obs {
	obs := &c15Obs{Reads: map[string]string{}, Accessor: map[string]string{}}
	if rp.NoInvocations == 1 {
		invs = nil // the empty batch itself: client.Execute called with no invocations
	} else if rp.NoInvocations == 2 {
		invs = []invocation.Invocation{}
	}
	body := rp.Raw
	if body == nil {
		body = carBytes(rp.Roots, rp.Blocks)
	}
	hdr := http.Header{}
	hdr.Set("Content-Type", car.ContentType)
	if rp.CT == "-" {
		hdr.Del("Content-Type") // no Content-Type header at all
	} else if rp.CT != "" {
		hdr.Set("Content-Type", rp.CT)
	}
	var ch transport.Channel = &scripted{status: rp.Status, body: body, hdr: hdr}
	if rp.Framing != "" {
		srv := httptest.NewServer(http.HandlerFunc(func(w http.ResponseWriter, r *http.Request) {
			io.Copy(io.Discard, r.Body)
			ct := hdr.Get("Content-Type")
			switch rp.Framing {
			case "cl":
				if rp.CT == "-" {
					w.Header()["Content-Type"] = nil // suppress net/http's content sniffing as well
				} else {
					w.Header().Set("Content-Type", ct)
				}
				w.Header().Set("Content-Length", fmt.Sprint(len(body)))
				w.WriteHeader(rp.Status)
				w.Write(body)
			case "chunked":
				w.Header().Set("Content-Type", ct)
				w.WriteHeader(rp.Status)
				if f, ok := w.(http.Flusher); ok {
					f.Flush()
				}
				half := len(body) / 2
				w.Write(body[:half])
				if f, ok := w.(http.Flusher); ok {
					f.Flush()
				}
				w.Write(body[half:])
			case "close", "short":
				hj, ok := w.(http.Hijacker)
				if !ok {
					return
				}
				c, bw, err := hj.Hijack()
				if err != nil {
					return
				}
				defer c.Close()
				fmt.Fprintf(bw, "HTTP/1.0 %d X\r\n", rp.Status)
				if rp.CT != "-" {
					fmt.Fprintf(bw, "Content-Type: %s\r\n", ct)
				}
				if rp.Framing == "short" {
					fmt.Fprintf(bw, "Content-Length: %d\r\n", len(body)+64)
				}
				bw.WriteString("\r\n")
				bw.Write(body)
				bw.Flush()
			}
		}))
		defer srv.Close()
		u, _ := url.Parse(srv.URL)
		ch = thttp.NewHTTPChannel(u)
	}
	var resp client.ExecutionResponse
	guard(obs, "client.Execute", func() {
		conn, _ := client.NewConnection(service, ch)
		r, err := client.Execute(invs, conn)
		if err != nil {
			obs.ExecErr = true
			return
		}
		resp = r
	})
	if resp == nil {
		if !obs.ExecErr && len(obs.Panics) == 0 {
			obs.ExecErr = true
		}
		return obs
	}
	for _, l := range rp.Lookups {
		got := ""
		guard(obs, "Get", func() {
			if rl, ok := resp.Get(l); ok && rl != nil {
				got = rl.String()
			}
		})
		obs.Gets = append(obs.Gets, got)
	}
	guard(obs, "Blocks", func() {
		for _, err := range resp.Blocks() {
			if err != nil {
				obs.IterErr = true
				continue
			}
			obs.NBlocks++
		}
	})
	// read every receipt named in the report (and one that is not there)
	var rlinks []string
	seen := map[string]bool{}
	for _, kv := range rp.Report {
		if !seen[kv[1]] {
			seen[kv[1]] = true
			rlinks = append(rlinks, kv[1])
		}
	}
	rdr, err := receipt.NewReceiptReader[ipld.Node, ipld.Node]([]byte("type Result struct {\n  ok optional Any\n  err optional Any (rename \"error\")\n}\n"))
	if err != nil {
		rdr = nil
	}
	for _, ls := range rlinks {
		l, okk := rp.linkOf(ls)
		if !okk {
			continue
		}
		var rc receipt.AnyReceipt
		guard(obs, "NewReceipt", func() {
			br, err := receipt.NewReceipt[ipld.Node, ipld.Node](l, blockReaderOf(resp), rdm.TypeSystem().TypeByName("Receipt"))
			if err != nil {
				obs.Reads[ls] = "error"
				return
			}
			obs.Reads[ls] = "ok"
			rc = br
		})
		if rdr != nil {
			guard(obs, "ReceiptReader.Read", func() { rdr.Read(l, resp.Blocks()) })
		}
		// the typed readers with bindnode options (converters): no panic; the {who: DID} result reads back as issued
		who, mismatch := c15TypedReads(obs, l, resp, rc)
		if rc != nil && mismatch == "" {
			if want := c15WhoOf(rc); want != "" && who != want {
				mismatch = fmt.Sprintf("the typed reader (NewReceiptReaderFromTypes with converters) reports who=%q for a receipt whose result is {who: %q}", who, want)
			}
		}
		if mismatch != "" {
			obs.Panics = append(obs.Panics, "typed-receipt-read: "+mismatch)
		}
		if rc == nil {
			continue
		}
		var bad []string
		acc := func(name string, f func()) {
			if p := recovered(f); p != nil {
				bad = append(bad, name)
				obs.Panics = append(obs.Panics, fmt.Sprintf("receipt.%s: %v", name, p))
			}
		}
		acc("Out", func() { rc.Out() })
		acc("Ran", func() { rc.Ran() })
		acc("Fx", func() { fx := rc.Fx(); fx.Fork(); fx.Join() })
		acc("Meta", func() { rc.Meta() })
		acc("Issuer", func() {
			if p := rc.Issuer(); p != nil {
				p.DID().String()
			}
		})
		acc("Proofs", func() { rc.Proofs() })
		acc("Signature", func() { s := rc.Signature(); s.Code(); s.Size(); s.Raw() })
		acc("Root", func() { rc.Root().Link() })
		acc("Blocks", func() {
			for range rc.Blocks() {
			}
		})
		obs.Accessor[ls] = strings.Join(bad, ",")
	}
	return obs
}

func (rp *reply) linkOf(s string) (ipld.Link, bool) {
	for _, b := range rp.Blocks {
		if b.Link().String() == s {
			return b.Link(), true
		}
	}
	for _, l := range rp.Lookups {
		if l.String() == s {
			return l, true
		}
	}
	for _, l := range rp.extra() {
		if l.String() == s {
			return l, true
		}
	}
	return nil, false
}

var c15Extra = map[string]ipld.Link{}

func (rp *reply) extra() []ipld.Link {
	var r []ipld.Link
	for _, l := range c15Extra {
		r = append(r, l)
	}
	return r
}

type respReader struct{ resp client.ExecutionResponse }

func (r respReader) Get(link ipld.Link) (ipld.Block, bool, error) {
	for b, err := range r.resp.Blocks() {
		if err == nil && b.Link().String() == link.String() {
			return b, true, nil
		}
	}
	return nil, false, nil
}
func (r respReader) Iterator() iter.Seq2[ipld.Block, error] { return r.resp.Blocks() }

func blockReaderOf(resp client.ExecutionResponse) respReader { return respReader{resp} }

// ---------------------------------------------------------------------------

func c15Replies(seed int64, tier string) ([]*reply, []invocation.Invocation, ucan.Principal) {
	r := rand.New(rand.NewSource(seed))
	cast := newCast(seed * 7)
	service := cast.Ed("service")
	far := int(ucan.Now()) + 100000
	var invs []invocation.Invocation
	for i := 0; i < 3; i++ {
		p := cast.Ed(fmt.Sprintf("u%d", i))
		inv, err := invocation.Invoke(p.Signer, service.DID, ucan.NewCapability[ucan.CaveatBuilder]("store/add", p.DID.String(), Cav{}),
			delegation.WithExpiration(far))
		if err != nil {
			panic(err)
		}
		invs = append(invs, inv)
	}
	// genuine receipts
	var rcpts []receipt.AnyReceipt
	for i, inv := range invs {
		var rc receipt.AnyReceipt
		var err error
		if i == 2 {
			// a result that a typed reader needs a converter for (gen_c15_typed.go)
			rc, err = receipt.Issue(service.Signer, result.Ok[c15Who, ipld.Builder](c15Who{Who: service.DID}), ran.FromInvocation(inv))
		} else if i%2 == 0 {
			rc, err = receipt.Issue(service.Signer, result.Ok[ok.Unit, ipld.Builder](ok.Unit{}), ran.FromInvocation(inv))
		} else {
			rc, err = receipt.Issue(service.Signer, result.Ok[ok.Unit, ipld.Builder](ok.Unit{}), ran.FromLink(inv.Link()))
		}
		if err != nil {
			panic(err)
		}
		rcpts = append(rcpts, rc)
	}
	blocksOf := func(rc receipt.AnyReceipt, withRan bool) []ipld.Block {
		var bs []ipld.Block
		bs = append(bs, rc.Root())
		return bs
	}
	invBlocks := func(inv invocation.Invocation) []ipld.Block {
		var bs []ipld.Block
		for b, err := range inv.Blocks() {
			if err == nil {
				bs = append(bs, b)
			}
		}
		return bs
	}
	var replies []*reply
	add := func(rp *reply) {
		if rp.Status == 0 {
			rp.Status = 200
		}
		rp.Lookups = append(rp.Lookups, invs[0].Link(), invs[1].Link(), invs[2].Link(), fakeLink(1))
		replies = append(replies, rp)
	}
	mk := func(label string, exec []ipld.Link, rep *mdm.ReportModel, blocks []ipld.Block, info map[string]string) *reply {
		root, err := encodeMsg(exec, rep)
		if err != nil {
			return nil
		}
		rp := &reply{Label: label, Roots: []ipld.Link{root.Link()}, Blocks: append([]ipld.Block{root}, blocks...), HasMsg: true, RcptInfo: info}
		if rep != nil {
			rp.HasRep = true
			for _, k := range rep.Keys {
				if v, ok := rep.Values[k]; ok {
					rp.Report = append(rp.Report, [2]string{k, v.String()})
				}
			}
		}
		return rp
	}
	report := func(keys []string, vals []ipld.Link) *mdm.ReportModel {
		rm := &mdm.ReportModel{Values: map[string]ipld.Link{}}
		for i, k := range keys {
			rm.Keys = append(rm.Keys, k)
			rm.Values[k] = vals[i]
		}
		return rm
	}
	// 1. report absent (reply to an empty batch), empty, foreign-keyed
	add(mk("report-absent", nil, nil, nil, nil))
	add(mk("report-absent-with-execute", []ipld.Link{invs[0].Link()}, nil, invBlocks(invs[0]), nil))
	add(mk("report-empty", nil, &mdm.ReportModel{Keys: []string{}, Values: map[string]ipld.Link{}}, nil, nil))
	add(mk("report-foreign-keys", nil, report([]string{"not-a-cid", fakeLink(9).String()}, []ipld.Link{rcpts[0].Root().Link(), rcpts[1].Root().Link()}),
		append(blocksOf(rcpts[0], false), blocksOf(rcpts[1], false)...), nil))
	// 2. proper report, with and without the receipt / invocation blocks
	for mask := 0; mask < 8; mask++ {
		var keys []string
		var vals []ipld.Link
		var blks []ipld.Block
		for i, rc := range rcpts {
			keys = append(keys, invs[i].Link().String())
			vals = append(vals, rc.Root().Link())
			if mask&(1<<uint(i)) != 0 {
				blks = append(blks, rc.Root())
				if i%2 == 0 || mask&4 != 0 {
					blks = append(blks, invBlocks(invs[i])...)
				}
			}
		}
		add(mk(fmt.Sprintf("report-proper blocks-mask=%d", mask), nil, report(keys, vals), blks, nil))
	}
	// 3. receipts with boundary-valued fields
	for _, how := range []string{"sigempty", "sigcode", "noiss", "badiss", "emptyiss", "randangling", "prfdangling", "forkdangling", "outneither", "outboth", "metaweird"} {
		for i, rc := range rcpts[:2] {
			tb, err := tamperReceipt(rc, how)
			if err != nil {
				continue
			}
			blks := []ipld.Block{tb}
			if i == 0 {
				blks = append(blks, invBlocks(invs[0])...)
			}
			add(mk(fmt.Sprintf("receipt-%s ran-embedded=%v", how, i == 0), nil, report([]string{invs[i].Link().String()}, []ipld.Link{tb.Link()}), blks, nil))
		}
	}
	// 4. report value is not a receipt block / root is not a message
	add(mk("report-points-to-invocation-block", nil, report([]string{invs[0].Link().String()}, []ipld.Link{invs[0].Link()}), invBlocks(invs[0]), nil))
	{
		rp := &reply{Label: "root-is-an-invocation", Roots: []ipld.Link{invs[0].Link()}, Blocks: invBlocks(invs[0])}
		add(rp)
		root, _ := encodeMsg(nil, nil)
		add(&reply{Label: "root-block-missing", Roots: []ipld.Link{root.Link()}, Blocks: invBlocks(invs[0])})
		add(&reply{Label: "no-roots", Roots: nil, Blocks: invBlocks(invs[0])})
		add(&reply{Label: "two-roots", Roots: []ipld.Link{root.Link(), invs[0].Link()}, Blocks: append([]ipld.Block{root}, invBlocks(invs[0])...), HasMsg: true})
	}
	// 1b. the same replies to an EMPTY batch: client.Execute is called with no invocations at all
	for _, k := range []int{1, 2} {
		for _, base := range []string{"report-absent", "report-empty", "report-foreign-keys"} {
			for _, rp := range replies {
				if rp != nil && rp.Label == base {
					c := *rp
					c.NoInvocations = k
					c.Label = fmt.Sprintf("%s (Execute called with %s)", base, []string{"", "nil", "an empty slice"}[k])
					replies = append(replies, &c)
					break
				}
			}
		}
	}
	// 4b. blocks addressed by CIDs shorter than a sha2-256 CID (identity multihash, digest truncated to 20 bytes):
	// both are valid under their own prefix, so the CAR reader delivers them; the message / receipt decoder must refuse
	// them (or read them) without panicking
	shortCID := func(b ipld.Block, kind string) ipld.Block {
		var d mh.Multihash
		if kind == "identity" {
			d, _ = mh.Sum(b.Bytes(), mh.IDENTITY, -1)
		} else {
			d, _ = mh.Sum(b.Bytes(), mh.SHA2_256, 20)
		}
		return block.NewBlock(cidlink.Link{Cid: cid.NewCidV1(0x71, d)}, b.Bytes())
	}
	for _, kind := range []string{"identity", "sha256-20"} {
		if root, err := encodeMsg(nil, nil); err == nil {
			alt := shortCID(root, kind)
			add(&reply{Label: "root-addressed-by-" + kind + "-cid", Roots: []ipld.Link{alt.Link()}, Blocks: []ipld.Block{alt}})
		}
		alt := shortCID(rcpts[0].Root(), kind)
		add(mk("receipt-addressed-by-"+kind+"-cid", nil, report([]string{invs[0].Link().String()}, []ipld.Link{alt.Link()}),
			append([]ipld.Block{alt}, invBlocks(invs[0])...), nil))
	}
	// 5. statuses and raw bodies
	good := mk("good", nil, report([]string{invs[0].Link().String()}, []ipld.Link{rcpts[0].Root().Link()}), append(blocksOf(rcpts[0], true), invBlocks(invs[0])...), nil)
	goodBytes := carBytes(good.Roots, good.Blocks)
	for _, st := range []int{100, 101, 201, 204, 301, 400, 404, 500, 503, 999} {
		add(&reply{Label: fmt.Sprintf("status-%d", st), Status: st, Roots: good.Roots, Blocks: good.Blocks, HasMsg: true, HasRep: true, Report: good.Report})
	}
	nraw := 1500
	if tier == "thorough" {
		nraw = 60000
	}
	for i := 0; i < nraw; i++ {
		mb := append([]byte{}, goodBytes...)
		switch r.Intn(5) {
		case 0:
			mb = mb[:r.Intn(len(mb)+1)]
		case 1:
			for n := 1 + r.Intn(4); n > 0; n-- {
				mb[r.Intn(len(mb))] ^= byte(1 << uint(r.Intn(8)))
			}
		case 2:
			mb = make([]byte, r.Intn(120))
			r.Read(mb)
		case 3:
			o := r.Intn(len(mb))
			for j := o; j < o+1+r.Intn(12) && j < len(mb); j++ {
				mb[j] = byte(r.Intn(256))
			}
		case 4:
			mb = append(mb, mb[r.Intn(len(mb)):]...)
		}
		add(&reply{Label: fmt.Sprintf("raw-%d", i), Raw: mb})
	}
	// 6. the same replies through a real HTTP server and transport/http's channel, in every framing
	var overHTTP []*reply
	nrawHTTP := 0
	for _, rp := range replies {
		if rp == nil {
			continue
		}
		if rp.Raw != nil {
			if nrawHTTP >= 60 {
				continue
			}
			nrawHTTP++
		}
		if rp.Status < 200 || rp.Status == 301 || rp.Status > 599 {
			continue // not final statuses a server can send / redirects are followed by net/http
		}
		for _, fr := range []string{"cl", "chunked", "close", "short"} {
			if rp.Raw != nil && fr != []string{"cl", "chunked", "close", "short"}[nrawHTTP%4] {
				continue
			}
			c := *rp
			c.Framing = fr
			c.Label = rp.Label + " http=" + fr
			overHTTP = append(overHTTP, &c)
		}
	}
	for _, st := range []int{201, 204, 400, 401, 404, 413, 429, 500, 502, 503, 504} {
		for _, fr := range []string{"cl", "chunked", "close", "short"} {
			for bi, bodyv := range [][]byte{nil, []byte("<html><body><h1>502 Bad Gateway</h1></body></html>"), goodBytes, bytes.Repeat([]byte("x"), 5000)} {
				raw := bodyv
				if raw == nil {
					raw = []byte{}
				}
				ct := ""
				if bi == 1 {
					ct = "text/html"
				}
				overHTTP = append(overHTTP, &reply{Label: fmt.Sprintf("http-error status=%d framing=%s body=%d", st, fr, bi), Status: st, Framing: fr, Raw: raw, CT: ct,
					Lookups: []ipld.Link{invs[0].Link()}})
			}
		}
	}
	// replies without a Content-Type header, or with a blank / odd one (a handler that writes no body sends none)
	for _, ct := range []string{"-", " ", ";", ",", "application/vnd.ipld.car; charset=binary", "APPLICATION/VND.IPLD.CAR", "text/plain"} {
		for _, fr := range []string{"", "cl", "close"} {
			for bi, bodyv := range [][]byte{goodBytes, {}} {
				overHTTP = append(overHTTP, &reply{Label: fmt.Sprintf("content-type %q framing=%q body=%d", ct, fr, bi), Status: 200, Framing: fr, Raw: bodyv, CT: ct,
					Lookups: []ipld.Link{invs[0].Link()}})
			}
		}
	}
	// a valid header (and first section) followed by a section that announces a huge length
	{
		hdrLen := 0
		if n, k := binaryUvarint(goodBytes); k > 0 {
			hdrLen = k + int(n)
		}
		for _, v := range []uint64{1 << 63, 1<<63 + 1, 1<<64 - 1, 1<<63 - 1, 1 << 62, 1 << 32, 1 << 31, 33554433} {
			for _, fr := range []string{"", "cl"} {
				body := append(append(append([]byte{}, goodBytes[:hdrLen]...), uvarintBytes(v)...), goodBytes[hdrLen:]...)
				overHTTP = append(overHTTP, &reply{Label: fmt.Sprintf("section length %d framing=%q", v, fr), Status: 200, Framing: fr, Raw: body, Lookups: []ipld.Link{invs[0].Link()}})
			}
		}
	}
	var out []*reply
	for _, rp := range append(replies, overHTTP...) {
		if rp != nil {
			out = append(out, rp)
		}
	}
	return out, invs, service.DID
}

func init() {
	gens["C15"] = func(o genOpts) error {
		replies, invs, service := c15Replies(o.seed, o.tier)
		bset := newBytesC15(o, &replies, invs, service) // byte-level model (gen_bytes.go): further bodies, and every scripted reply
		type panicRec struct {
			Reply  int      `json:"reply"`
			Label  string   `json:"label"`
			Panics []string `json:"panics"`
			Hex    string   `json:"body_hex,omitempty"`
		}
		var panics []panicRec
		var cases []string
		classes := map[string]int{}
		sigs := map[string]int{}
		var samples []any
		linkIDs := map[string]int{}
		lid := func(s string) int {
			if s == "" {
				return 0
			}
			if id, ok := linkIDs[s]; ok {
				return id
			}
			linkIDs[s] = len(linkIDs) + 1
			return linkIDs[s]
		}
		structured := 0
		framings := map[string]int{}
		direct := []map[string]any{}
		for i, rp := range replies {
			stopWatch := bytesWatchdog(fmt.Sprintf("reply %d (%s)", i, rp.Label), 90*time.Second)
			obs := runClient(rp, invs, service)
			bset.observe(i, rp)
			stopWatch()
			if len(obs.Panics) > 0 {
				pr := panicRec{Reply: i, Label: rp.Label, Panics: obs.Panics}
				if rp.Raw != nil {
					pr.Hex = fmt.Sprintf("%x", rp.Raw)
				}
				panics = append(panics, pr)
			}
			cls := "response"
			if obs.ExecErr {
				cls = "error"
			}
			if rp.Framing != "" {
				framings[rp.Framing]++
				if rp.Status != 200 && !obs.ExecErr && len(obs.Panics) == 0 {
					direct = append(direct, map[string]any{"reply": i, "label": rp.Label, "what": "a non-200 HTTP status was returned as a response object"})
				}
			}
			if rp.Raw != nil || rp.Framing == "short" {
				// raw bodies and bodies cut short of their declared length: only "no panic" (and error for non-200) is required
				classes["raw:"+cls]++
				continue
			}
			classes[cls]++
			structured++
			// model case: status, message shape, report, lookups -> expected Get results
			var rep []string
			for _, kv := range rp.Report {
				// keys are compared as strings: a key equals a lookup iff it is that link's string
				rep = append(rep, fmt.Sprintf("(%d, %d)", lid(kv[0]), lid(kv[1])))
			}
			var look, gets []string
			for j, l := range rp.Lookups {
				look = append(look, fmt.Sprint(lid(l.String())))
				if j < len(obs.Gets) {
					gets = append(gets, fmt.Sprint(lid(obs.Gets[j])))
				}
			}
			reportTerm := "None"
			if rp.HasRep {
				reportTerm = "(Some [" + strings.Join(rep, "; ") + "])"
			}
			rootOK := rp.HasMsg && len(rp.Roots) > 0
			cases = append(cases, fmt.Sprintf("{| cc_id := %d; cc_status := %d; cc_root_is_message := %s; cc_report := %s; cc_lookups := [%s];\n ob_error := %s; ob_gets := [%s] |}",
				i, rp.Status, coqBool(rootOK), reportTerm, strings.Join(look, "; "), coqBool(obs.ExecErr), strings.Join(gets, "; ")))
			var rk []string
			for k, v := range obs.Reads {
				rk = append(rk, v+":"+obs.Accessor[k])
				_ = k
			}
			sort.Strings(rk)
			sigs[fmt.Sprintf("%s|%s|%v|%v", rp.Label, cls, obs.Gets, rk)]++
			if len(samples) < 8 {
				samples = append(samples, map[string]any{"reply": i, "label": rp.Label, "class": cls, "gets_found": countNonEmpty(obs.Gets), "blocks": obs.NBlocks, "receipt_reads": rk})
			}
		}
		var sb strings.Builder
		sb.WriteString("From Ucanto Require Import Base Client.\nOpen Scope N_scope.\n")
		fmt.Fprintf(&sb, "Definition cases : list ccase := %s.\n", coqList(cases))
		sb.WriteString("Definition M := Eval vm_compute in check_ccases cases.\nPrint M.\n")
		if err := writeFile(o.out, "cases_C15_00.v", sb.String()); err != nil {
			return err
		}
		labels := map[int]string{}
		for i, rp := range replies {
			if rp.Raw == nil {
				labels[i] = rp.Label
			}
		}
		if err := writeJSON(o.out, "labels.json", labels); err != nil {
			return err
		}
		if err := bset.finish(o.out); err != nil {
			return err
		}
		return writeJSON(o.out, "stats.json", map[string]any{"replies": len(replies), "structured_replies": structured,
			"classes": classes, "http_framings": framings, "direct_violations": direct, "panic_list": panics, "distinct_signatures": sigs, "samples": samples})
	}
}

func binaryUvarint(b []byte) (uint64, int) { return binary.Uvarint(b) }

func countNonEmpty(xs []string) int {
	n := 0
	for _, x := range xs {
		if x != "" {
			n++
		}
	}
	return n
}
