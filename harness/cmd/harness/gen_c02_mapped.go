package main

// gen_c02_mapped.go — C02 with a capability whose caveats are bound to a PLAIN Go type (schema.Mapped over
// schema.Struct: no ToIPLD on the domain value), the usual shape of a server-side capability definition.
// Outside the Coq model (the model's readers are the harness's own); a direct oracle: a claim that exceeds what a
// delegation of the chain allows is never authorized, and the derivation rule is never shown the claim's own
// value as the delegated one.

import (
	"fmt"

	ipldprime "github.com/ipld/go-ipld-prime"
	"github.com/ipld/go-ipld-prime/datamodel"
	"github.com/ipld/go-ipld-prime/node/basicnode"
	"github.com/storacha/go-ucanto/core/delegation"
	"github.com/storacha/go-ucanto/core/invocation"
	"github.com/storacha/go-ucanto/core/result/failure"
	"github.com/storacha/go-ucanto/core/schema"
	"github.com/storacha/go-ucanto/principal"
	edverifier "github.com/storacha/go-ucanto/principal/ed25519/verifier"
	"github.com/storacha/go-ucanto/ucan"
	"github.com/storacha/go-ucanto/validator"
)

type mappedModel struct{ Size int64 }
type mappedAlloc struct{ Bytes uint64 } // the domain type: NOT an IPLD builder

type mappedNb struct{ Size *int64 }

func (c mappedNb) ToIPLD() (datamodel.Node, error) {
	nb := basicnode.Prototype.Any.NewBuilder()
	ma, _ := nb.BeginMap(1)
	if c.Size != nil {
		ma.AssembleKey().AssignString("size")
		ma.AssembleValue().AssignInt(*c.Size)
	}
	ma.Finish()
	return nb.Build(), nil
}

func c02Mapped(seed int64) (direct []map[string]any, runs int) {
	ts, err := ipldprime.LoadSchemaBytes([]byte("type Alloc struct {\n  size Int\n}\n"))
	if err != nil {
		return []map[string]any{{"what": "mapped caveats: schema does not load: " + err.Error()}}, 0
	}
	cast := newCast(seed * 4441)
	service := cast.Ed("service")
	type shown struct{ claimed, delegated uint64 }
	for hops := 1; hops <= 3; hops++ {
		for _, claim := range []int64{50, 100, 101, 500} {
			for at := 0; at < hops; at++ { // the delegation that restricts (others repeat the claim's bound or a looser one)
				var seen []shown
				alloc := validator.NewCapability(
					"blob/allocate", schema.DIDString(),
					schema.Mapped(schema.Struct[mappedModel](ts.TypeByName("Alloc"), nil),
						func(m mappedModel) (mappedAlloc, failure.Failure) {
							if m.Size < 0 {
								return mappedAlloc{}, schema.NewSchemaError("negative size")
							}
							return mappedAlloc{Bytes: uint64(m.Size)}, nil
						}),
					func(claimed, delegated ucan.Capability[mappedAlloc]) failure.Failure {
						seen = append(seen, shown{claimed.Nb().Bytes, delegated.Nb().Bytes})
						if claimed.With() != delegated.With() || claimed.Nb().Bytes > delegated.Nb().Bytes {
							return schema.NewSchemaError("escalation")
						}
						return nil
					})
				signers := []*Prin{cast.Ed("m0"), cast.Ed("m1"), cast.Ed("m2"), cast.Ed("m3")}
				space := signers[0].DID.String()
				var prf delegation.Delegation
				bad := false
				for i := 0; i < hops; i++ {
					limit := int64(1000)
					if i == at {
						limit = 100
					}
					opts := []delegation.Option{delegation.WithNoExpiration()}
					if prf != nil {
						opts = append(opts, delegation.WithProof(delegation.FromDelegation(prf)))
					}
					d, err := delegation.Delegate(signers[i].Signer, signers[i+1].DID,
						[]ucan.Capability[mappedNb]{ucan.NewCapability("blob/allocate", space, mappedNb{Size: &limit})}, opts...)
					if err != nil {
						bad = true
						break
					}
					prf = d
				}
				if bad {
					continue
				}
				inv, err := invocation.Invoke(signers[hops].Signer, service.DID, ucan.NewCapability("blob/allocate", space, mappedNb{Size: &claim}),
					delegation.WithNoExpiration(), delegation.WithProof(delegation.FromDelegation(prf)))
				if err != nil {
					continue
				}
				ctx := validator.NewValidationContext(service.Signer.(principal.Signer).Verifier(), alloc, validator.IsSelfIssued,
					func(validator.Authorization[any]) validator.Revoked { return nil }, validator.ProofUnavailable,
					func(s string) (principal.Verifier, error) { return edverifier.Parse(s) }, validator.FailDIDKeyResolution)
				var authorized bool
				if p := recovered(func() {
					_, xerr := validator.Access(inv, ctx)
					authorized = xerr == nil
				}); p != nil {
					direct = append(direct, map[string]any{"what": fmt.Sprintf("mapped caveats: Access panicked: %v", p), "hops": hops, "claim": claim, "restricting": at})
					continue
				}
				runs++
				if authorized && claim > 100 {
					direct = append(direct, map[string]any{"what": "mapped caveats: a claim exceeding the size a delegation of its chain allows was authorized",
						"hops": hops, "claim": claim, "restricting_delegation": at, "limit": 100})
				}
				for _, s := range seen {
					if s.claimed > 100 && s.delegated == s.claimed && at == hops-1 {
						// the delegation next to the claim says 100: the rule must not be shown the claim's value as delegated
						direct = append(direct, map[string]any{"what": "mapped caveats: the derivation rule was shown the claimed value as the delegated one",
							"hops": hops, "claim": claim, "shown": fmt.Sprint(s)})
						break
					}
				}
			}
		}
	}
	// ---- a restriction whose VALUE is all zeroes (size: 0 written by a builder that is a plain integer type) is still
	// written into the token and still binds; and a derivation rule that panics on a claim omitting the field never
	// authorizes.  (Caveats of a type that is itself an IPLD builder, so that they traverse delegated chains.)
	for _, hops := range []int{1, 2} {
		for _, variant := range []string{"zero-limit", "panicking-rule"} {
			alloc := validator.NewCapability[sizeCav](
				"blob/allocate", schema.DIDString(), sizeReader{},
				func(claimed, delegated ucan.Capability[sizeCav]) failure.Failure {
					if delegated.Nb().Size == nil {
						return nil
					}
					// (dereferences the claim's optional field without a nil check: panics when the claim omits it)
					if *claimed.Nb().Size > *delegated.Nb().Size {
						return schema.NewSchemaError("escalation")
					}
					return nil
				})
			signers := []*Prin{cast.Ed("z0"), cast.Ed("z1"), cast.Ed("z2")}
			space := signers[0].DID.String()
			var prf delegation.Delegation
			for i := 0; i < hops; i++ {
				opts := []delegation.Option{delegation.WithNoExpiration()}
				if prf != nil {
					opts = append(opts, delegation.WithProof(delegation.FromDelegation(prf)))
				}
				var nb ucan.CaveatBuilder = sizeNb(0) // the restricting value is the zero value of its Go type
				if variant == "panicking-rule" {
					nb = sizeNb(10)
				}
				if i > 0 {
					nb = sizeCav{} // later hops add nothing
				}
				d, err := delegation.Delegate(signers[i].Signer, signers[i+1].DID,
					[]ucan.Capability[ucan.CaveatBuilder]{ucan.NewCapability("blob/allocate", space, nb)}, opts...)
				if err != nil {
					prf = nil
					break
				}
				prf = d
			}
			if prf == nil {
				continue
			}
			claim := int64(50)
			var claimNb ucan.CaveatBuilder = sizeCav{Size: &claim}
			if variant == "panicking-rule" {
				claimNb = sizeCav{} // the claim omits the field the delegation restricts
			}
			inv, err := invocation.Invoke(signers[hops].Signer, service.DID, ucan.NewCapability("blob/allocate", space, claimNb),
				delegation.WithNoExpiration(), delegation.WithProof(delegation.FromDelegation(prf)))
			if err != nil {
				continue
			}
			ctx := validator.NewValidationContext(service.Signer.(principal.Signer).Verifier(), alloc, validator.IsSelfIssued,
				func(validator.Authorization[any]) validator.Revoked { return nil }, validator.ProofUnavailable,
				func(s string) (principal.Verifier, error) { return edverifier.Parse(s) }, validator.FailDIDKeyResolution)
			authorized := false
			recovered(func() {
				_, xerr := validator.Access(inv, ctx)
				authorized = xerr == nil
			})
			runs++
			if authorized {
				what := "builder caveats: a delegation restricting size to 0 (the zero value of the builder's type) authorized a claim of 50"
				if variant == "panicking-rule" {
					what = "builder caveats: a claim omitting a restricted field was authorized although the derivation rule cannot have accepted it (it panics on such a claim)"
				}
				direct = append(direct, map[string]any{"what": what, "hops": hops})
			}
			// control: a claim within the restriction IS authorized (the scenario is live, not refused for another reason)
			if variant == "panicking-rule" {
				within := int64(5)
				inv2, err := invocation.Invoke(signers[hops].Signer, service.DID, ucan.NewCapability[ucan.CaveatBuilder]("blob/allocate", space, sizeCav{Size: &within}),
					delegation.WithNoExpiration(), delegation.WithProof(delegation.FromDelegation(prf)))
				if err == nil {
					ok2 := false
					recovered(func() {
						_, xerr := validator.Access(inv2, ctx)
						ok2 = xerr == nil
					})
					runs++
					if !ok2 {
						direct = append(direct, map[string]any{"what": "builder caveats: a claim within the delegated size was refused", "hops": hops})
					}
				}
			}
		}
	}
	return direct, runs
}

// sizeNb: a caveat builder that is a plain integer: sizeNb(0) restricts to zero and is the zero value of its type
type sizeNb int64

func (c sizeNb) ToIPLD() (datamodel.Node, error) {
	nb := basicnode.Prototype.Any.NewBuilder()
	ma, _ := nb.BeginMap(1)
	ma.AssembleKey().AssignString("size")
	ma.AssembleValue().AssignInt(int64(c))
	ma.Finish()
	return nb.Build(), nil
}

// sizeCav: the capability's caveat type (itself a builder); size is optional
type sizeCav struct{ Size *int64 }

func (c sizeCav) ToIPLD() (datamodel.Node, error) { return mappedNb{Size: c.Size}.ToIPLD() }

type sizeReader struct{}

func (sizeReader) Read(input any) (sizeCav, failure.Failure) {
	n := nbNode(input)
	if n == nil || n.Kind() != datamodel.Kind_Map {
		return sizeCav{}, schema.NewSchemaError("caveats are not a map")
	}
	v, err := n.LookupByString("size")
	if err != nil {
		return sizeCav{}, nil
	}
	i, err := v.AsInt()
	if err != nil {
		return sizeCav{}, schema.NewSchemaError("size is not an integer")
	}
	return sizeCav{Size: &i}, nil
}
