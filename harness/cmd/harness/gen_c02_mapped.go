package main

// gen_c02_mapped.go — C02 with a capability whose caveats are bound to a PLAIN Go type (schema.Mapped over
// schema.Struct: no ToIPLD on the domain value), the usual shape of a server-side capability definition.
// Outside the Coq model (the model's readers are the harness's own); a direct oracle: a claim that exceeds what a
// delegation of the chain allows is never authorized, and the derivation rule is never shown the claim's own
// value as the delegated one.

import (
	"fmt"

	ipldprime "github.com/ipld/go-ipld-prime"
	"github.com/ipld/go-ipld-prime/datamodel"
	"github.com/ipld/go-ipld-prime/node/basicnode"
	"github.com/storacha/go-ucanto/core/delegation"
	"github.com/storacha/go-ucanto/core/invocation"
	"github.com/storacha/go-ucanto/core/result/failure"
	"github.com/storacha/go-ucanto/core/schema"
	"github.com/storacha/go-ucanto/principal"
	edverifier "github.com/storacha/go-ucanto/principal/ed25519/verifier"
	"github.com/storacha/go-ucanto/ucan"
	"github.com/storacha/go-ucanto/validator"
)

type mappedModel struct{ Size int64 }
type mappedAlloc struct{ Bytes uint64 } // the domain type: NOT an IPLD builder

type mappedNb struct{ Size *int64 }

func (c mappedNb) ToIPLD() (datamodel.Node, error) {
	nb := basicnode.Prototype.Any.NewBuilder()
	ma, _ := nb.BeginMap(1)
	if c.Size != nil {
		ma.AssembleKey().AssignString("size")
		ma.AssembleValue().AssignInt(*c.Size)
	}
	ma.Finish()
	return nb.Build(), nil
}

func c02Mapped(seed int64) (direct []map[string]any, runs int) {
	ts, err := ipldprime.LoadSchemaBytes([]byte("type Alloc struct {\n  size Int\n}\n"))
	if err != nil {
		return []map[string]any{{"what": "mapped caveats: schema does not load: " + err.Error()}}, 0
	}
	cast := newCast(seed * 4441)
	service := cast.Ed("service")
	type shown struct{ claimed, delegated uint64 }
	for hops := 1; hops <= 3; hops++ {
		for _, claim := range []int64{50, 100, 101, 500} {
			for at := 0; at < hops; at++ { // the delegation that restricts (others repeat the claim's bound or a looser one)
				var seen []shown
				alloc := validator.NewCapability(
					"blob/allocate", schema.DIDString(),
					schema.Mapped(schema.Struct[mappedModel](ts.TypeByName("Alloc"), nil),
						func(m mappedModel) (mappedAlloc, failure.Failure) {
							if m.Size < 0 {
								return mappedAlloc{}, schema.NewSchemaError("negative size")
							}
							return mappedAlloc{Bytes: uint64(m.Size)}, nil
						}),
					func(claimed, delegated ucan.Capability[mappedAlloc]) failure.Failure {
						seen = append(seen, shown{claimed.Nb().Bytes, delegated.Nb().Bytes})
						if claimed.With() != delegated.With() || claimed.Nb().Bytes > delegated.Nb().Bytes {
							return schema.NewSchemaError("escalation")
						}
						return nil
					})
				signers := []*Prin{cast.Ed("m0"), cast.Ed("m1"), cast.Ed("m2"), cast.Ed("m3")}
				space := signers[0].DID.String()
				var prf delegation.Delegation
				bad := false
				for i := 0; i < hops; i++ {
					limit := int64(1000)
					if i == at {
						limit = 100
					}
					opts := []delegation.Option{delegation.WithNoExpiration()}
					if prf != nil {
						opts = append(opts, delegation.WithProof(delegation.FromDelegation(prf)))
					}
					d, err := delegation.Delegate(signers[i].Signer, signers[i+1].DID,
						[]ucan.Capability[mappedNb]{ucan.NewCapability("blob/allocate", space, mappedNb{Size: &limit})}, opts...)
					if err != nil {
						bad = true
						break
					}
					prf = d
				}
				if bad {
					continue
				}
				inv, err := invocation.Invoke(signers[hops].Signer, service.DID, ucan.NewCapability("blob/allocate", space, mappedNb{Size: &claim}),
					delegation.WithNoExpiration(), delegation.WithProof(delegation.FromDelegation(prf)))
				if err != nil {
					continue
				}
				ctx := validator.NewValidationContext(service.Signer.(principal.Signer).Verifier(), alloc, validator.IsSelfIssued,
					func(validator.Authorization[any]) validator.Revoked { return nil }, validator.ProofUnavailable,
					func(s string) (principal.Verifier, error) { return edverifier.Parse(s) }, validator.FailDIDKeyResolution)
				var authorized bool
				if p := recovered(func() {
					_, xerr := validator.Access(inv, ctx)
					authorized = xerr == nil
				}); p != nil {
					direct = append(direct, map[string]any{"what": fmt.Sprintf("mapped caveats: Access panicked: %v", p), "hops": hops, "claim": claim, "restricting": at})
					continue
				}
				runs++
				if authorized && claim > 100 {
					direct = append(direct, map[string]any{"what": "mapped caveats: a claim exceeding the size a delegation of its chain allows was authorized",
						"hops": hops, "claim": claim, "restricting_delegation": at, "limit": 100})
				}
				for _, s := range seen {
					if s.claimed > 100 && s.delegated == s.claimed && at == hops-1 {
						// the delegation next to the claim says 100: the rule must not be shown the claim's value as delegated
						direct = append(direct, map[string]any{"what": "mapped caveats: the derivation rule was shown the claimed value as the delegated one",
							"hops": hops, "claim": claim, "shown": fmt.Sprint(s)})
						break
					}
				}
			}
		}
	}
	return direct, runs
}
