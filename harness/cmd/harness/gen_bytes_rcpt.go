package main

// Hand-written receipt root blocks, each inside a proper response whose report names it: what
// receipt.NewReceipt (the reader behind ReceiptReader.Read) makes of the block a report points at
// is compared with ReceiptBytes.read_receipt (Check_Bytes.v, code 8).

import (
	"github.com/storacha/go-ucanto/core/ipld"
)

type rcptVariant struct {
	name string
	data []byte
	kind string // CID kind for bytesMkBlock ("" = dag-cbor / sha2-256)
}

func bytesReceiptVariants(look []ipld.Link, issuer string) []rcptVariant {
	T := cbText
	L := func(i int) []byte { return cbLink(look[i]) }
	sig := cbBytes([]byte{0xed, 0xa1, 0x03, 0x03, 9, 8, 7})
	okE := cbMap(T("ok"), cbMap())
	fx0 := cbMap(T("fork"), cbList())
	ocmOf := func(fields ...[]byte) []byte { return cbMap(fields...) }
	rcOf := func(ocm []byte) []byte { return cbMap(T("ocm"), ocm, T("sig"), sig) }
	std := func() [][]byte {
		return [][]byte{T("ran"), L(0), T("out"), okE, T("fx"), fx0, T("meta"), cbMap(), T("prf"), cbList()}
	}
	// the standard outcome with one field replaced (val == nil: removed) or a field appended
	with := func(key string, val []byte) []byte {
		f := std()
		var out [][]byte
		found := false
		for i := 0; i < len(f); i += 2 {
			if string(f[i]) == string(T(key)) {
				found = true
				if val != nil {
					out = append(out, f[i], val)
				}
				continue
			}
			out = append(out, f[i], f[i+1])
		}
		if !found && val != nil {
			out = append(out, T(key), val)
		}
		return ocmOf(out...)
	}
	nestedDup := cbMap(T("a"), cbMap(T("x"), cbInt(1), T("x"), cbInt(2)))
	vs := []rcptVariant{
		{"proper-ok-min", rcOf(ocmOf(std()...)), ""},
		{"proper-error", rcOf(with("out", cbMap(T("error"), T("boom")))), ""},
		{"proper-full", rcOf(ocmOf(T("ran"), L(1), T("out"), cbMap(T("ok"), cbMap(T("n"), cbInt(7))), T("fx"), cbMap(T("fork"), cbList(L(1), L(2)), T("join"), L(0)),
			T("meta"), cbMap(T("a"), cbInt(1), T("b"), cbList(cbNull)), T("iss"), T(issuer), T("prf"), cbList(L(1), L(0)))), ""},
		{"proper-keys-reversed", cbMap(T("sig"), sig, T("ocm"), ocmOf(T("prf"), cbList(), T("meta"), cbMap(), T("fx"), fx0, T("out"), okE, T("ran"), L(2))), ""},
		{"proper-indefinite", cbMapIndef(T("ocm"), cbMapIndef(T("ran"), L(0), T("out"), okE, T("fx"), cbMap(T("fork"), cbListIndef(L(1))), T("meta"), cbMap(), T("prf"), cbListIndef()), T("sig"), sig), ""},
		{"out-both", rcOf(with("out", cbMap(T("ok"), cbInt(1), T("error"), cbInt(2)))), ""},
		{"out-both-error-first", rcOf(with("out", cbMap(T("error"), cbInt(2), T("ok"), cbInt(1)))), ""},
		{"out-neither", rcOf(with("out", cbMap())), ""},
		{"out-unknown-key", rcOf(with("out", cbMap(T("okay"), cbInt(1)))), ""},
		{"out-err-key-unrenamed", rcOf(with("out", cbMap(T("err"), cbInt(1)))), ""},
		{"out-err-both-spellings", rcOf(with("out", cbMap(T("err"), cbInt(1), T("error"), cbInt(2)))), ""},
		{"out-ok-and-err-unrenamed", rcOf(with("out", cbMap(T("err"), cbInt(1), T("ok"), cbInt(2)))), ""},
		{"out-ok-null", rcOf(with("out", cbMap(T("ok"), cbNull))), ""},
		{"out-error-null", rcOf(with("out", cbMap(T("error"), cbNull))), ""},
		{"out-ok-nested-dup", rcOf(with("out", cbMap(T("ok"), nestedDup))), ""},
		{"out-list", rcOf(with("out", cbList())), ""},
		{"out-null", rcOf(with("out", cbNull)), ""},
		{"missing-sig", cbMap(T("ocm"), ocmOf(std()...)), ""},
		{"missing-ocm", cbMap(T("sig"), sig), ""},
		{"missing-ran", rcOf(with("ran", nil)), ""},
		{"missing-out", rcOf(with("out", nil)), ""},
		{"missing-fx", rcOf(with("fx", nil)), ""},
		{"missing-meta", rcOf(with("meta", nil)), ""},
		{"missing-prf", rcOf(with("prf", nil)), ""},
		{"fx-missing-fork", rcOf(with("fx", cbMap())), ""},
		{"fx-only-join", rcOf(with("fx", cbMap(T("join"), L(0)))), ""},
		{"fx-join-null", rcOf(with("fx", cbMap(T("fork"), cbList(), T("join"), cbNull))), ""},
		{"fx-unknown-key", rcOf(with("fx", cbMap(T("fork"), cbList(), T("x"), cbInt(1)))), ""},
		{"fx-fork-string", rcOf(with("fx", cbMap(T("fork"), cbList(T("x"))))), ""},
		{"fx-fork-null-item", rcOf(with("fx", cbMap(T("fork"), cbList(cbNull)))), ""},
		{"fx-fork-not-list", rcOf(with("fx", cbMap(T("fork"), L(0)))), ""},
		{"fx-join-list", rcOf(with("fx", cbMap(T("fork"), cbList(), T("join"), cbList(L(0))))), ""},
		{"fx-list", rcOf(with("fx", cbList())), ""},
		{"ran-string", rcOf(with("ran", T(look[0].String()))), ""},
		{"ran-bytes", rcOf(with("ran", cbBytes([]byte(look[0].Binary())))), ""},
		{"ran-null", rcOf(with("ran", cbNull)), ""},
		{"ran-v0-link", rcOf(with("ran", cbLink(bytesMkBlock([]byte("v0"), "v0").Link()))), ""},
		{"ran-identity-link", rcOf(with("ran", cbLink(bytesMkBlock([]byte("id"), "identity").Link()))), ""},
		{"sig-string", cbMap(T("ocm"), ocmOf(std()...), T("sig"), T("sig")), ""},
		{"sig-null", cbMap(T("ocm"), ocmOf(std()...), T("sig"), cbNull), ""},
		{"sig-empty", cbMap(T("ocm"), ocmOf(std()...), T("sig"), cbBytes(nil)), ""},
		{"sig-one-byte", cbMap(T("ocm"), ocmOf(std()...), T("sig"), cbBytes([]byte{0xff})), ""},
		{"iss-bytes", rcOf(with("iss", cbBytes([]byte(issuer)))), ""},
		{"iss-null", rcOf(with("iss", cbNull)), ""},
		{"iss-present", rcOf(with("iss", T(issuer))), ""},
		{"prf-int-item", rcOf(with("prf", cbList(cbInt(1)))), ""},
		{"prf-map", rcOf(with("prf", cbMap())), ""},
		{"prf-null", rcOf(with("prf", cbNull)), ""},
		{"prf-links", rcOf(with("prf", cbList(L(2), L(2), L(1)))), ""},
		{"meta-list", rcOf(with("meta", cbList())), ""},
		{"meta-null", rcOf(with("meta", cbNull)), ""},
		{"meta-value-null", rcOf(with("meta", cbMap(T("a"), cbNull))), ""},
		{"meta-value-nested-dup", rcOf(with("meta", cbMap(T("m"), nestedDup))), ""},
		{"meta-key-int", rcOf(with("meta", cbMap(cbInt(1), cbInt(1)))), ""},
		{"meta-values", rcOf(with("meta", cbMap(T("a"), cbInt(1), T("l"), L(0), T("b"), cbBytes([]byte{1})))), ""},
		{"ocm-list", cbMap(T("ocm"), cbList(), T("sig"), sig), ""},
		{"ocm-null", cbMap(T("ocm"), cbNull, T("sig"), sig), ""},
		{"ocm-unknown-key", rcOf(with("x", cbInt(1))), ""},
		{"top-unknown-key", cbMap(T("ocm"), ocmOf(std()...), T("sig"), sig, T("x"), cbInt(1)), ""},
		{"top-list", cbList(ocmOf(std()...), sig), ""},
		{"top-int", cbInt(7), ""},
		{"top-empty-map", cbMap(), ""},
		{"top-empty-bytes", []byte{}, ""},
		{"top-trailing-byte", cat(rcOf(ocmOf(std()...)), []byte{0}), ""},
		{"top-truncated", rcOf(ocmOf(std()...))[:20], ""},
		{"top-key-case", cbMap(T("Ocm"), ocmOf(std()...), T("Sig"), sig), ""},
		// repeated struct keys: outside the modelled domain (the model answers RUnmodelled)
		{"dup-ocm", cbMap(T("ocm"), ocmOf(std()...), T("ocm"), ocmOf(std()...), T("sig"), sig), ""},
		{"dup-prf", rcOf(ocmOf(append(std(), T("prf"), cbList(L(1)))...)), ""},
		{"dup-sig", cbMap(T("ocm"), ocmOf(std()...), T("sig"), sig, T("sig"), cbBytes([]byte{1})), ""},
		// the proper block under other CIDs: block.Decode's integrity check
		{"cid-raw", rcOf(ocmOf(std()...)), "raw-sha256"},
		{"cid-dagjson", rcOf(ocmOf(std()...)), "dagjson-sha256"},
		{"cid-identity", rcOf(ocmOf(std()...)), "identity"},
		{"cid-sha256-20", rcOf(ocmOf(std()...)), "sha256-20"},
		{"cid-sha512", rcOf(ocmOf(std()...)), "sha512"},
		{"cid-v0", rcOf(ocmOf(std()...)), "v0"},
		{"cid-raw-garbage", []byte("not cbor at all"), "raw-sha256"},
	}
	return vs
}

// responses whose report names the hand-written receipt (and, every third time, a second proper one)
func bytesReceiptBodies(look []ipld.Link, issuer string, other []ipld.Block) []bytesBody {
	var out []bytesBody
	vs := bytesReceiptVariants(look, issuer)
	proper := bytesMkBlock(vs[2].data, "")
	for i, v := range vs {
		hb := bytesMkBlock(v.data, v.kind)
		rep := [][]byte{cbText(look[0].String()), cbLink(hb.Link())}
		blocks := []ipld.Block{hb}
		if i%3 == 1 {
			rep = append(rep, cbText(look[1].String()), cbLink(proper.Link()))
			blocks = append(blocks, proper)
		}
		if i%4 == 2 {
			blocks = append(append([]ipld.Block{}, other...), blocks...)
		}
		root := bytesMkBlock(cbMap(cbK7, cbMap(cbRp, cbMap(rep...))), "")
		blocks = append(blocks, root)
		out = append(out, bytesBody{"rcpt:" + v.name, bytesCar([]ipld.Link{root.Link()}, blocks)})
	}
	// the report names a receipt whose block did not travel
	root := bytesMkBlock(cbMap(cbK7, cbMap(cbRp, cbMap(cbText(look[0].String()), cbLink(proper.Link())))), "")
	out = append(out, bytesBody{"rcpt:block-missing", bytesCar([]ipld.Link{root.Link()}, []ipld.Block{root})})
	// ... and the message root itself
	self := cbMap(cbK7, cbMap(cbRp, cbMap(cbText(look[0].String()), cbLink(look[0]))))
	sb := bytesMkBlock(self, "")
	out = append(out, bytesBody{"rcpt:names-an-invocation", bytesCar([]ipld.Link{sb.Link()}, append(append([]ipld.Block{}, other...), sb))})
	return out
}
