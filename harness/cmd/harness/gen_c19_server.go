package main

// gen_c19_server.go — C19 through the server: a request whose invocation lists MANY capabilities (64, in a few KB) over a
// short proof chain that does not authorize it.  The work the server spends on it stays bounded by the number of
// delegations it carries (n^2+2 signature verifications, n = delegations incl. the invocation), however many
// capabilities the invocation names.  Direct oracle with a counting verifier behind the principal parser.

import (
	"fmt"

	"github.com/storacha/go-ucanto/core/delegation"
	"github.com/storacha/go-ucanto/core/invocation"
	"github.com/storacha/go-ucanto/core/ipld"
	"github.com/storacha/go-ucanto/principal"
	"github.com/storacha/go-ucanto/server"
	"github.com/storacha/go-ucanto/ucan"
)

func c19ServerManyCaps(seed int64, firstID int) []shapeInfo {
	var out []shapeInfo
	for ki, k := range []int{1, 2, 8, 64} {
		cast := newCast(seed*52361 + int64(ki))
		service := cast.Ed("service")
		far := int(ucan.Now()) + 1000000
		w := &World{ID: firstID + ki, Kind: "server-many-caps", Cast: cast, Can: "store/add", Ctx: baseCtx(service)}
		obs := &Obs{}
		stranger, mid, invoker := cast.Ed("stranger"), cast.Ed("mid"), cast.Ed("invoker")
		with := cast.Ed("owner").DID.String()
		mk := func(iss, aud *Prin, nonce string, prf ...delegation.Proof) delegation.Delegation {
			d, err := delegation.Delegate(iss.Signer, aud.DID, []ucan.Capability[ucan.CaveatBuilder]{ucan.NewCapability[ucan.CaveatBuilder]("store/add", with, Cav{})},
				delegation.WithExpiration(far), delegation.WithNonce(nonce), delegation.WithProof(prf...))
			if err != nil {
				panic(err)
			}
			return d
		}
		// stranger -> mid -> invoker: the root does not own the resource, so nothing is authorized
		d1 := mk(stranger, mid, "d1")
		d2 := mk(mid, invoker, "d2", delegation.FromDelegation(d1))
		var caps []ucan.Capability[ucan.CaveatBuilder]
		for i := 0; i < k; i++ {
			caps = append(caps, ucan.NewCapability[ucan.CaveatBuilder]("store/add", with, Cav{Max: i64(int64(i))}))
		}
		inv, err := invocation.Invoke(invoker.Signer, service.DID, caps[0], delegation.WithExpiration(far), delegation.WithProof(delegation.FromDelegation(d2)))
		if err == nil && k > 1 {
			// invocation.Invoke takes one capability: a token with k capabilities addressed to the service is the same thing
			var d delegation.Delegation
			d, err = delegation.Delegate(invoker.Signer, service.DID, caps, delegation.WithExpiration(far), delegation.WithProof(delegation.FromDelegation(d2)))
			if err == nil {
				inv = d
			}
		}
		if err != nil {
			continue
		}
		srv, err := server.NewServer(service.Signer.(principal.Signer),
			server.WithServiceMethod("store/add", sharedProvider("store/add", "ok")),
			server.WithPrincipalParser(w.parser(obs)),
			server.WithErrorHandler(func(server.HandlerExecutionError[any]) {}))
		if err != nil {
			continue
		}
		if p := recovered(func() { _, _ = srv.Run(inv) }); p != nil {
			continue
		}
		n := 3
		out = append(out, shapeInfo{World: firstID + ki, Shape: fmt.Sprintf("server-many-caps(%d capabilities)", k), Width: k, Depth: 2, RootOK: false,
			Delegations: n, Verifies: len(obs.Verifies), Bound: n*n + 2})
	}
	return out
}

var _ ipld.Block
