package main

// gen_chain.go — random delegation-chain worlds with defect injections,
// decoys, multi-capability tokens and wildcards (shared by C01, C05, C06, C08).

import (
	"fmt"
	"math/rand"
	"strings"

	"github.com/storacha/go-ucanto/ucan"
)

type chainKnobs struct {
	MaxDepth    int
	Defects     []int // possible numbers of defects, drawn uniformly
	Decoys      int   // max number of decoy proofs per token
	RSA         bool
	Revocation  bool
	Resolver    bool
	Caveats     bool
	SecondChain bool   // sometimes add a second complete chain
	ForcePolicy string // "": drawn per world; "self": self-issued; "owners": owner table (sometimes naming someone else)
}

var abilities = []string{"store/add", "store/list", "upload/add", "space/blob/add"}

func pick[T any](r *rand.Rand, xs []T) T { return xs[r.Intn(len(xs))] }

func i64(v int64) *int64    { return &v }
func strp(s string) *string { return &s }

// ability pattern that grants `can`
func grantingPattern(r *rand.Rand, can string) string {
	switch r.Intn(4) {
	case 0:
		return "*"
	case 1:
		// a namespace wildcard over ANY parent namespace of the ability ("space/*" as well as "space/blob/*")
		var cuts []int
		for i := 0; i < len(can); i++ {
			if can[i] == '/' {
				cuts = append(cuts, i)
			}
		}
		if len(cuts) > 0 {
			return can[:cuts[r.Intn(len(cuts))]] + "/*"
		}
	}
	return can
}

func findSpec(specs []*TokSpec, name string) *TokSpec {
	for _, s := range specs {
		if s.Name == name {
			return s
		}
	}
	return nil
}

func irrelevantCap(r *rand.Rand, with string) CapSpec {
	return CapSpec{Can: pick(r, []string{"debug/echo", "other/thing", "store/remove", "stor/*", "store"}), With: with, Nb: Cav{}}
}

var defectKinds = []string{"forged", "tamper-aud", "tamper-cap", "tamper-exp", "tamper-sig", "tamper-nbf0", "tamper-nnc0", "tamper-ver", "misaligned",
	"foreign-resource", "extended-resource", "other-ability", "non-owner-root", "expired", "too-early", "missing-block", "near-ability"}

type chainInfo struct {
	Depth   int
	Defects []string // kind@position
	Valid   bool     // the generator believes a valid chain exists
	RSA     bool
	Decoys  int
}

// chainWorld builds a world around one main chain owner -> p1 -> ... -> invoker.
func chainWorld(r *rand.Rand, id int, seed int64, k chainKnobs) (*World, chainInfo) {
	return chainWorldIn(r, id, seed, k, nil, "")
}

// chainWorldIn: same, with the principals of an existing cast and a prefix for token names
// (several invocations of one batch share principals and context).
func chainWorldIn(r *rand.Rand, id int, seed int64, k chainKnobs, cast *Cast, prefix string) (*World, chainInfo) {
	if cast == nil {
		cast = newCast(seed*1000003 + int64(id))
	}
	service := cast.Ed("service")
	can := pick(r, abilities)
	depth := r.Intn(k.MaxDepth + 1)
	info := chainInfo{Depth: depth, Valid: true}
	now := int(ucan.Now())
	far := now + 1000000

	prins := make([]*Prin, depth+1)
	for i := range prins {
		if k.RSA && r.Intn(5) == 0 {
			prins[i] = cast.RSA(fmt.Sprintf("r%d", i), i)
			info.RSA = true
		} else {
			prins[i] = cast.Ed(fmt.Sprintf("p%d", i))
		}
	}
	mallory := cast.Ed("mallory")
	carol := cast.Ed("carol")
	owner := prins[0]
	with := owner.DID.String()

	w := &World{ID: id, Kind: "chain", Cast: cast, Can: can, Inv: prefix + "inv"}
	switch id % 6 {
	case 1:
		w.Rearchive = "archive"
	case 4:
		w.Rearchive = "format"
	}
	w.Ctx = CtxSpec{Authority: service, SelfIssued: true, Owners: map[string]*Prin{}, Revoked: map[string]bool{},
		Resolvable: map[string]bool{}, ParserKind: "ed", KeyResolver: map[string]*Prin{}}
	if info.RSA && r.Intn(4) != 0 {
		w.Ctx.ParserKind = "ed+rsa"
	} else if info.RSA {
		info.Valid = false // RSA issuer on the path, parser only knows Ed25519
	}
	// can-issue policy: self-issued, or an owner table (then `with` need not be the owner's DID)
	draw := r.Intn(8)
	switch k.ForcePolicy {
	case "self":
		draw = 7
	case "owners":
		draw = []int{0, 2, 3, 3}[r.Intn(4)]
	}
	switch draw {
	case 0, 1:
		w.Ctx.SelfIssued = false
		with = pick(r, []string{"https://example.com/bucket", "did:web:space.example", "urn:thing:1"})
		w.Ctx.Owners[with] = owner
	case 2:
		// a policy STRICTER than self-issue: the resource is the chain root's own DID, but only someone else may
		// issue capabilities on it — the chain is not rooted, whoever names himself as the resource
		w.Ctx.SelfIssued = false
		w.Ctx.Owners[with] = carol
		info.Valid = false
	case 3:
		// ... and the same policy naming the chain root: valid
		w.Ctx.SelfIssued = false
		w.Ctx.Owners[with] = owner
	case 4:
		// self-issue means the resource IS the issuer's DID: a resource that merely extends the root's DID (a DID URL of
		// it, a longer DID that starts with it) or that the root's DID extends is somebody else's — the chain is not rooted
		if k.ForcePolicy == "" && r.Intn(2) == 0 {
			if r.Intn(4) == 0 {
				with = with[:len(with)-1-r.Intn(3)]
			} else {
				with += pick(r, []string{"#inbox", "/uploads", "?x=1", "x", ":sub", "%20"})
			}
			info.Valid = false
			info.Defects = append(info.Defects, "resource-extends-root-did@0/0")
		}
	}

	// caveats of the claim
	claimNb := Cav{}
	if k.Caveats && r.Intn(2) == 0 {
		claimNb.Max = i64(int64(r.Intn(100)))
		if r.Intn(2) == 0 {
			claimNb.Tag = strp(pick(r, []string{"a", "b"}))
		}
	}

	ndef := pick(r, k.Defects)
	type defect struct {
		kind string
		pos  int // 1..depth: delegation i (issued by p[i-1] to p[i]); depth+1: the invocation
	}
	var defects []defect
	for i := 0; i < ndef; i++ {
		d := defect{kind: pick(r, defectKinds), pos: 1 + r.Intn(depth+1)}
		defects = append(defects, d)
	}
	prev := ""
	prevDefect := "" // a defect of the token just built that makes it an invalid proof (for the twin decoy)
	for i := 1; i <= depth+1; i++ {
		isInv := i == depth+1
		sp := &TokSpec{Name: fmt.Sprintf("%sd%d", prefix, i), Issuer: prins[i-1], Exp: &far}
		if isInv {
			sp.Name = prefix + "inv"
			sp.Audience = service
			sp.Caps = []CapSpec{{Can: can, With: with, Nb: claimNb}}
		} else {
			sp.Audience = prins[i]
			pat := grantingPattern(r, can)
			wpat := with
			if r.Intn(5) == 0 {
				wpat = "ucan:*"
			}
			main := CapSpec{Can: pat, With: wpat, Nb: Cav{}}
			if k.Caveats && claimNb.Max != nil && r.Intn(3) == 0 {
				// a restriction the claim satisfies
				main.Nb = Cav{Max: i64(*claimNb.Max + int64(r.Intn(5)))}
			}
			sp.Caps = []CapSpec{main}
			// multi-capability tokens: irrelevant capabilities around the granting one
			for n := r.Intn(3); n > 0; n-- {
				if r.Intn(2) == 0 {
					sp.Caps = append([]CapSpec{irrelevantCap(r, with)}, sp.Caps...)
				} else {
					sp.Caps = append(sp.Caps, irrelevantCap(r, with))
				}
			}
			if r.Intn(6) == 0 {
				sp.Exp = nil
			}
		}
		if r.Intn(5) == 0 {
			// a token stamped a few seconds before it is used
			sp.Nbf = now - 1 - r.Intn(4) // strictly in the past: a token is active only AFTER its not-before second (Now() <= nbf is too early)
		}
		if prev != "" {
			inline := true
			if k.Resolver && r.Intn(5) == 0 {
				inline = false
				w.Ctx.Resolvable[prev] = true
			}
			sp.Proofs = []ProofRef{{Tok: prev, Inline: inline}}
		}
		// defects at this position
		for _, d := range defects {
			if d.pos != i {
				continue
			}
			tag := fmt.Sprintf("%s@%d/%d", d.kind, i, depth+1)
			applied := true
			switch d.kind {
			case "forged":
				sp.SignedBy = mallory
			case "tamper-aud":
				sp.Tamper, sp.TamperTo = "aud", carol
				if isInv {
					// audience of the invocation is not checked by the validator: harmless for the chain,
					// but the signature no longer matches
				}
			case "tamper-cap":
				sp.Tamper, sp.TamperTo = "cap", carol
			case "tamper-exp":
				sp.Tamper = "exp"
			case "tamper-nbf0":
				sp.Tamper = "nbf0"
			case "tamper-nnc0":
				sp.Tamper = "nnc0"
			case "tamper-ver":
				sp.Tamper = "verweird" // the spec version written in the token is part of what was signed
			case "tamper-sig":
				sp.Tamper = "sig"
			case "misaligned":
				if isInv {
					applied = false
				} else {
					sp.Audience = carol
				}
			case "foreign-resource":
				foreign := carol.DID.String()
				if !strings.HasPrefix(with, "did:") {
					// the chain is about a resource that is not a DID: the foreign one is not a DID either
					foreign = with + "/../other"
				}
				for ci := range sp.Caps {
					sp.Caps[ci].With = foreign
				}
			case "extended-resource":
				// a resource that merely STARTS WITH the one the cited proof grants (a longer DID, a path below it): not contained
				ext := with + pick(r, []string{".evil.org", "/sub", "x", ":more", "#frag"})
				for ci := range sp.Caps {
					sp.Caps[ci].With = ext
				}
			case "other-ability":
				if isInv {
					applied = false
				} else {
					for ci := range sp.Caps {
						sp.Caps[ci].Can = "other/thing"
					}
				}
			case "near-ability":
				if isInv {
					applied = false
				} else {
					for ci := range sp.Caps {
						sp.Caps[ci].Can = pick(r, []string{can + "x", can[:len(can)-1], "Store/*", can + "/*", "/*"})
					}
				}
			case "non-owner-root":
				if i != 1 {
					applied = false
				} else if r.Intn(2) == 0 {
					sp.Issuer = mallory
				} else {
					sp.Issuer = service // the service itself is not the owner either (nothing it issues roots a chain on others' resources)
				}
			case "expired":
				e := now - 100000
				sp.Exp = &e
			case "too-early":
				sp.Nbf = now + 100000
			case "missing-block":
				if len(sp.Proofs) == 0 {
					applied = false
				} else {
					sp.Proofs[0].Inline = false
					delete(w.Ctx.Resolvable, sp.Proofs[0].Tok)
				}
			}
			if applied {
				info.Defects = append(info.Defects, tag)
				if !(d.kind == "foreign-resource" && isInv) {
					info.Valid = false
				}
				if d.kind == "foreign-resource" && isInv {
					// the invocation now claims carol's resource through the owner's chain
					info.Valid = false
				}
			}
		}
		// a second copy of a DEFECTIVE proof (same defect, other nonce) cited immediately before it: two bad proofs in a row
		if len(sp.Proofs) > 0 && prevDefect != "" && r.Intn(2) == 0 {
			if pb := findSpec(w.Specs, prev); pb != nil {
				tw := *pb
				tw.Name = prev + "_twin"
				tw.Nonce = pb.Nonce + "twin"
				tw.Caps = append([]CapSpec{}, pb.Caps...)
				tw.Proofs = append([]ProofRef{}, pb.Proofs...)
				w.Specs = append(w.Specs, &tw)
				sp.Proofs = append([]ProofRef{{Tok: tw.Name, Inline: true}}, sp.Proofs...)
				info.Decoys++
			}
		}
		// decoys: extra proofs that do not help
		if k.Decoys > 0 && len(sp.Proofs) > 0 {
			for n := r.Intn(k.Decoys + 1); n > 0; n-- {
				dn := fmt.Sprintf("%sdecoy%d_%d", prefix, i, n)
				dec := &TokSpec{Name: dn, Issuer: carol, Audience: sp.Issuer, Exp: &far,
					Caps: []CapSpec{{Can: can, With: carol.DID.String(), Nb: Cav{}}}}
				switch r.Intn(5) {
				case 0: // expired but otherwise granting
					e := now - 5000
					dec.Exp = &e
					dec.Issuer = owner
					dec.Caps[0].With = with
				case 1: // badly signed, granting
					dec.Issuer, dec.SignedBy = owner, mallory
					dec.Caps[0].With = with
				case 2: // other ability
					dec.Caps[0].Can = "debug/echo"
				case 3: // delegated to someone else
					dec.Issuer, dec.Audience = owner, carol
					dec.Caps[0].With = with
				}
				w.Specs = append(w.Specs, dec)
				ref := ProofRef{Tok: dn, Inline: r.Intn(6) != 0}
				if r.Intn(2) == 0 {
					sp.Proofs = append([]ProofRef{ref}, sp.Proofs...)
				} else {
					sp.Proofs = append(sp.Proofs, ref)
				}
				info.Decoys++
			}
			if r.Intn(8) == 0 {
				sp.Dangling = 1
			}
			if r.Intn(8) == 0 { // duplicate citation of the real proof
				sp.Proofs = append(sp.Proofs, sp.Proofs[len(sp.Proofs)-1])
			}
			if r.Intn(6) == 0 && prev != "" {
				// the real proof is cited twice: first as a SHALLOW copy (only its root block came along), then in full
				for pi := range sp.Proofs {
					if sp.Proofs[pi].Tok == prev && sp.Proofs[pi].Inline {
						sp.Proofs = append(append(append([]ProofRef{}, sp.Proofs[:pi]...), ProofRef{Tok: prev, Inline: true, Shallow: true}), sp.Proofs[pi:]...)
						info.Decoys++
						break
					}
				}
			}
			if r.Intn(6) == 0 {
				// a block that is well-formed DAG-CBOR but not a UCAN, cited and embedded as a proof next to the real ones
				nn := fmt.Sprintf("%snotucan%d", prefix, i)
				w.Specs = append(w.Specs, &TokSpec{Name: nn, NotUCAN: true})
				if r.Intn(2) == 0 {
					sp.Proofs = append([]ProofRef{{Tok: nn, Inline: true}}, sp.Proofs...)
				} else {
					sp.Proofs = append(sp.Proofs, ProofRef{Tok: nn, Inline: true})
				}
				info.Decoys++
			}
		}
		w.Specs = append(w.Specs, sp)
		prev = sp.Name
		prevDefect = ""
		for _, d := range defects {
			if d.pos == i {
				switch d.kind {
				case "expired", "too-early", "forged", "tamper-sig", "tamper-exp", "misaligned", "tamper-aud":
					prevDefect = d.kind
				}
			}
		}
	}
	if k.Revocation && r.Intn(2) == 0 {
		// revoke one token of the main chain
		victim := w.Specs[len(w.Specs)-1-r.Intn(1+min(depth, len(w.Specs)-1))].Name
		w.Ctx.Revoked[victim] = true
	}
	return w, info
}
