package main

// tokenview.go — the tie between token BYTES and the tokens the validator model reasons about
// (coq/TokenView.v, coq/Check_TokenView.v).
//
// For every token of every world rendered by World.Coq (when enabled for the property being
// generated) this records:
//   - the token's root block bytes (what the Coq side decodes with Formats.token_decode),
//   - the `mkTok …` term rendered from the Go accessors (World.coqToken — the very term the
//     world case file contains),
//   - what is OBSERVED about the signature by calling ucan.VerifySignature with every key of the
//     cast: once with the key's verifier presented under the token's own issuer DID (the raw
//     signature check), once with the key's own did:key verifier,
//   - for a sample of worlds, every (key, message, signature) the verifier primitives accepted,
//   - the world's tables: CID bytes -> link number, key id -> (DID bytes, algorithm name).
// writeWorldCases flushes the records into tview_<prefix>_NN.v next to the world case files.

import (
	"bytes"
	"encoding/hex"
	"fmt"
	"os"
	"sort"
	"strings"

	"github.com/ipfs/go-cid"
	"github.com/storacha/go-ucanto/did"
	"github.com/storacha/go-ucanto/principal"
	"github.com/storacha/go-ucanto/ucan"
	"github.com/storacha/go-ucanto/ucan/crypto/signature"
)

// properties whose generators emit the token views (VERIF_TOKENVIEW=all|none|C01,C05 overrides)
var tokenViewProps = map[string]bool{"C01": true}

// one world in tokenViewFullEvery is also checked with the verifier primitive's observed
// (key, message, signature) table, which makes the model rebuild the exact signed message
var tokenViewFullEvery = 8

func tokenViewEnabled() bool {
	if len(os.Args) < 3 || os.Args[1] != "gen" {
		return false
	}
	prop := os.Args[2]
	switch v := os.Getenv("VERIF_TOKENVIEW"); v {
	case "":
		return tokenViewProps[prop]
	case "all":
		return true
	case "none":
		return false
	default:
		for _, p := range strings.Split(v, ",") {
			if p == prop {
				return true
			}
		}
		return false
	}
}

type tvCollector struct {
	worlds []string          // rendered tvworld records (cheap check)
	full   []string          // rendered tvworld records with observed primitive calls (full check)
	dids   map[string][]byte // distinct DID byte strings met (for the per-file string table)
	seen   map[*World]bool
	tokens int
	stats  map[string]int
}

var tokenViews = &tvCollector{dids: map[string][]byte{}, seen: map[*World]bool{}, stats: map[string]int{}}

// asVerifier presents a key's verifier under another DID: ucan.VerifySignature then performs
// exactly the raw check verifier.Verify(encodeSignaturePayload(token), token.Signature()).
type asVerifier struct {
	principal.Verifier
	as did.DID
}

func (a asVerifier) DID() did.DID { return a.as }

// recVerifier records the primitive's accepted calls
type recVerifier struct {
	principal.Verifier
	keyID int
	calls *[]string
}

func (r recVerifier) Verify(msg []byte, sig signature.Signature) bool {
	ok := r.Verifier.Verify(msg, sig)
	if ok {
		*r.calls = append(*r.calls, fmt.Sprintf("(%d, %s, %s)", r.keyID, hx(msg), hx(sig.Bytes())))
	}
	return ok
}

type tvKey struct {
	id  int
	did did.DID
	alg string
	vf  principal.Verifier
}

// castKeys: the distinct keys of the cast (every principal that is a did:key with a real verifier)
func castKeys(c *Cast) []tvKey {
	var names []string
	for n := range c.byName {
		names = append(names, n)
	}
	sort.Strings(names)
	seen := map[int]bool{}
	var res []tvKey
	for _, n := range names {
		p := c.byName[n]
		if p.KeyID == 0 || p.Real == nil || !isKeyDID(p.DID) || seen[p.KeyID] {
			continue
		}
		seen[p.KeyID] = true
		res = append(res, tvKey{id: p.KeyID, did: p.DID, alg: p.Signer.SignatureAlgorithm(), vf: p.Real})
	}
	sort.Slice(res, func(i, j int) bool { return res[i].id < res[j].id })
	return res
}

func coqNList(xs []int) string {
	var items []string
	for _, x := range xs {
		items = append(items, fmt.Sprint(x))
	}
	return "[" + strings.Join(items, "; ") + "]"
}

// tokenViewHook is called at the end of World.Coq (all link numbers of the world are assigned).
func tokenViewHook(w *World) {
	if !tokenViewEnabled() || tokenViews.seen[w] {
		return
	}
	tokenViews.seen[w] = true
	c := tokenViews
	keys := castKeys(w.Cast)
	full := tokenViewFullEvery > 0 && len(c.worlds)%tokenViewFullEvery == 0
	var calls []string
	var toks []string
	for _, name := range w.order {
		b := w.built[name]
		d := b.Dlg
		var sigkeys, verifs []int
		for _, k := range keys {
			k := k
			var raw, own bool
			if p := recovered(func() {
				var vf principal.Verifier = k.vf
				if full {
					vf = recVerifier{k.vf, k.id, &calls}
				}
				raw, _ = ucan.VerifySignature(d.Data(), asVerifier{vf, d.Issuer().DID()})
				own, _ = ucan.VerifySignature(d.Data(), k.vf)
			}); p != nil {
				c.stats["verify_panics"]++
			}
			if raw {
				sigkeys = append(sigkeys, k.id)
			}
			if own {
				verifs = append(verifs, k.id)
			}
		}
		if len(sigkeys) > 0 {
			c.stats["tokens_with_a_verifying_key"]++
		}
		if len(sigkeys) > 0 && len(verifs) == 0 {
			c.stats["tokens_signed_by_another_principal_or_wrapped"]++
		}
		if m := d.Data().Model(); m != nil {
			c.dids[string(m.Iss)] = m.Iss
			c.dids[string(m.Aud)] = m.Aud
		}
		c.tokens++
		toks = append(toks, fmt.Sprintf("{| tt_link := %d; tt_bytes := %s;\n    tt_tok := %s;\n    tt_sigkeys := %s; tt_verifs := %s |}",
			w.lid(d.Link()), hx(d.Root().Bytes()), w.coqToken(b), coqNList(sigkeys), coqNList(verifs)))
	}
	var ks []string
	for _, k := range keys {
		c.dids[string(k.did.Bytes())] = k.did.Bytes()
		ks = append(ks, fmt.Sprintf("(%d, %s, %s)", k.id, hx(k.did.Bytes()), hxs(k.alg)))
	}
	var ls []string
	for i, s := range w.links {
		cd, err := cid.Decode(s)
		if err != nil {
			continue
		}
		ls = append(ls, fmt.Sprintf("(%s, %d)", hx(cd.Bytes()), i+1))
	}
	rec := fmt.Sprintf("{| tv_id := %d;\n  tv_links := [%s];\n  tv_keys := [%s];\n  tv_toks := %s;\n  tv_calls := [%s] |}",
		w.ID, strings.Join(ls, "; "), strings.Join(ks, "; "), coqList(toks), strings.Join(calls, ";\n   "))
	if full {
		c.full = append(c.full, rec)
		c.stats["worlds_checked_with_observed_messages"]++
	}
	c.worlds = append(c.worlds, rec)
}

// flushTokenViews writes the collected records as tview_<prefix>_NN.v (called by writeWorldCases).
func flushTokenViews(dir, prefix string, shards int) error {
	c := tokenViews
	if len(c.worlds) == 0 {
		return nil
	}
	defer func() {
		tokenViews = &tvCollector{dids: map[string][]byte{}, seen: map[*World]bool{}, stats: map[string]int{}}
	}()
	if shards < 1 {
		shards = 1
	}
	var dkeys []string
	for k := range c.dids {
		dkeys = append(dkeys, k)
	}
	sort.Strings(dkeys)
	write := func(name string, recs []string, fn string) error {
		var sb bytes.Buffer
		sb.WriteString("From Coq Require Import Uint63.\nFrom Ucanto Require Import Base Pattern Time Validator Check_CBOR Check_Json TokenView Check_TokenView.\nOpen Scope N_scope.\n")
		body := coqList(recs)
		// the DID table of this file: only the DIDs that occur in it
		var ds []string
		for _, k := range dkeys {
			h := hx(c.dids[k])
			if len(c.dids[k]) > 0 && strings.Contains(body, h) {
				ds = append(ds, h)
			}
		}
		defs, out := internPacked("Definition dids : list bstr := " + coqList(ds) + ".\nDefinition worlds : list tvworld := " + body + ".\n")
		sb.WriteString(defs)
		sb.WriteString(out)
		sb.WriteString("Definition tbl : list (bstr * bstr) := Eval vm_compute in (did_table dids).\n")
		fmt.Fprintf(&sb, "Definition M := Eval vm_compute in %s tbl worlds.\nPrint M.\n", fn)
		return writeFile(dir, name, sb.String())
	}
	tag := strings.TrimPrefix(prefix, "cases_")
	per := (len(c.worlds) + shards - 1) / shards
	for k := 0; k*per < len(c.worlds); k++ {
		hi := (k + 1) * per
		if hi > len(c.worlds) {
			hi = len(c.worlds)
		}
		if err := write(fmt.Sprintf("tview_%s_%02d.v", tag, k), c.worlds[k*per:hi], "check_views"); err != nil {
			return err
		}
	}
	fshards := shards
	if fshards > len(c.full) {
		fshards = len(c.full)
	}
	if fshards > 0 {
		per = (len(c.full) + fshards - 1) / fshards
		for k := 0; k*per < len(c.full); k++ {
			hi := (k + 1) * per
			if hi > len(c.full) {
				hi = len(c.full)
			}
			if err := write(fmt.Sprintf("tview_%s_full_%02d.v", tag, k), c.full[k*per:hi], "check_views_full"); err != nil {
				return err
			}
		}
	}
	st := map[string]any{"worlds": len(c.worlds), "tokens": c.tokens, "distinct_dids": len(c.dids)}
	for k, v := range c.stats {
		st[k] = v
	}
	return writeJSON(dir, "tview_stats_"+tag+".json", st)
}

// internPacked is internHex with the constants written as packed primitive-integer literals
// (Check_CBOR.pk), left unevaluated: Coq type-checks a definition's evaluated byte list at ~10 us
// per node, which dominates the run time of a case file that carries whole token blocks; the
// packed literal is 25 times smaller and is unpacked inside the one vm_compute of the check.
func internPacked(body string) (defs string, out string) {
	names := map[string]string{}
	var sb strings.Builder
	out = hxRe.ReplaceAllStringFunc(body, func(m string) string {
		h := hxRe.FindStringSubmatch(m)[1]
		if n, ok := names[h]; ok {
			return n
		}
		b, err := hex.DecodeString(h)
		if err != nil || len(b) <= 8 {
			return m
		}
		n := fmt.Sprintf("s_%d", len(names))
		names[h] = n
		fmt.Fprintf(&sb, "Definition %s : bstr := %s.\n", n, pk(b))
		return n
	})
	return sb.String(), out
}
