package main

// tokenview.go — the tie between token BYTES and the tokens the validator model reasons about
// (coq/TokenBytes.v, coq/TokenView.v, coq/Check_TokenView.v).
//
// For every token of every world rendered by World.Coq (when enabled for the property being
// generated) this records:
//   - the token's root block bytes (what the Coq side decodes with TokenBytes.token_decode_typed),
//   - the `mkTok …` term rendered from the Go accessors (World.coqToken — the very term the
//     world case file contains),
//   - what is OBSERVED about the signature by calling ucan.VerifySignature with every key of the
//     cast: once with the key's verifier presented under the token's own issuer DID (the raw
//     signature check), once with the key's own did:key verifier,
//   - for one world in tokenViewFullEvery, every (key, message, signature) the verifier
//     primitives accepted (the Coq side then has to rebuild the exact signed message),
//   - the world's tables: CID bytes -> link number, key id -> (DID bytes, algorithm name).
// World.Coq only queues the world; writeWorldCases -> flushTokenViews does the work on all CPUs
// and writes tview_<prop>_NN.v / tview_<prop>_full_NN.v next to the world case files, plus the
// hand-written root blocks of tokenview_blocks.go.

import (
	"bytes"
	"encoding/hex"
	"fmt"
	"os"
	"runtime"
	"sort"
	"strings"
	"sync"

	"github.com/ipfs/go-cid"
	"github.com/storacha/go-ucanto/did"
	"github.com/storacha/go-ucanto/principal"
	"github.com/storacha/go-ucanto/ucan"
	"github.com/storacha/go-ucanto/ucan/crypto/signature"
)

// properties whose generators emit the token views (VERIF_TOKENVIEW=all|none|C01,C05 overrides)
var tokenViewProps = map[string]bool{"C01": true, "C02": true, "C04": true}

// one world in tokenViewFullEvery is checked with the verifier primitive's observed
// (key, message, signature) table, which makes the model rebuild the exact signed message
var tokenViewFullEvery = 8

// bounds for the large tiers
var tokenViewMaxWorlds = 3200
var tokenViewPerFile = 64

func tokenViewEnabled() bool {
	if len(os.Args) < 3 || os.Args[1] != "gen" {
		return false
	}
	prop := os.Args[2]
	switch v := os.Getenv("VERIF_TOKENVIEW"); v {
	case "":
		return tokenViewProps[prop]
	case "all":
		return true
	case "none":
		return false
	default:
		for _, p := range strings.Split(v, ",") {
			if p == prop {
				return true
			}
		}
		return false
	}
}

// a world as it was when World.Coq rendered it (worlds are rebuilt and re-run by some generators, so
// everything that depends on the world's mutable state is taken at that moment; only the
// signature observations — the expensive part — are left for flushTokenViews)
type tvTokSnap struct {
	link  int
	bytes []byte
	tok   string // World.coqToken
	dlg   delegationLike
	iss   []byte
	aud   []byte
}

type delegationLike interface {
	Data() ucan.View
	Issuer() ucan.Principal
}

type tvSnap struct {
	id    int
	full  bool
	toks  []tvTokSnap
	keys  []tvKey
	links []string // rendered (CID bytes, number) pairs
}

type tvResult struct {
	rec    string
	full   bool
	dids   [][]byte
	tokens int
	stats  map[string]int
}

var tvQueue []*tvSnap
var tvSeen = map[*World]bool{}

// tokenViewHook is called at the end of World.Coq (all link numbers of the world are assigned).
func tokenViewHook(w *World) {
	if !tokenViewEnabled() || tvSeen[w] {
		return
	}
	tvSeen[w] = true
	tvQueue = append(tvQueue, tvSnapshot(w, tokenViewFullEvery > 0 && len(tvQueue)%tokenViewFullEvery == 0))
}

// asVerifier presents a key's verifier under another DID: ucan.VerifySignature then performs
// exactly the raw check verifier.Verify(encodeSignaturePayload(token), token.Signature()).
type asVerifier struct {
	principal.Verifier
	as did.DID
}

func (a asVerifier) DID() did.DID { return a.as }

// recVerifier records the primitive's accepted calls
type recVerifier struct {
	principal.Verifier
	keyID int
	calls *[]string
}

func (r recVerifier) Verify(msg []byte, sig signature.Signature) bool {
	ok := r.Verifier.Verify(msg, sig)
	if ok {
		*r.calls = append(*r.calls, fmt.Sprintf("(%d, %s, %s)", r.keyID, hx(msg), hx(sig.Bytes())))
	}
	return ok
}

type tvKey struct {
	id  int
	did did.DID
	alg string
	vf  principal.Verifier
}

// castKeys: the distinct keys of the cast (every principal that is a did:key with a real verifier)
func castKeys(c *Cast) []tvKey {
	var names []string
	for n := range c.byName {
		names = append(names, n)
	}
	sort.Strings(names)
	seen := map[int]bool{}
	var res []tvKey
	for _, n := range names {
		p := c.byName[n]
		if p.KeyID == 0 || p.Real == nil || !isKeyDID(p.DID) || seen[p.KeyID] {
			continue
		}
		seen[p.KeyID] = true
		res = append(res, tvKey{id: p.KeyID, did: p.DID, alg: p.Signer.SignatureAlgorithm(), vf: p.Real})
	}
	sort.Slice(res, func(i, j int) bool { return res[i].id < res[j].id })
	return res
}

func coqNList(xs []int) string {
	var items []string
	for _, x := range xs {
		items = append(items, fmt.Sprint(x))
	}
	return "[" + strings.Join(items, "; ") + "]"
}

// tvObserve: which keys accept the token's signature — with the key's verifier presented under
// the token's own issuer DID (raw), and with the key's own did:key verifier (own)
func tvObserve(d delegationLike, keys []tvKey, calls *[]string, stats map[string]int) (sigkeys, verifs []int) {
	for _, k := range keys {
		k := k
		var raw, own bool
		if p := recovered(func() {
			var vf principal.Verifier = k.vf
			if calls != nil {
				vf = recVerifier{k.vf, k.id, calls}
			}
			raw, _ = ucan.VerifySignature(d.Data(), asVerifier{vf, d.Issuer().DID()})
			own, _ = ucan.VerifySignature(d.Data(), k.vf)
		}); p != nil && stats != nil {
			stats["verify_panics"]++
		}
		if raw {
			sigkeys = append(sigkeys, k.id)
		}
		if own {
			verifs = append(verifs, k.id)
		}
	}
	return
}

// tvSnapshot takes what depends on the world's state: link numbers, renderings, bytes.
func tvSnapshot(w *World, full bool) *tvSnap {
	sn := &tvSnap{id: w.ID, full: full, keys: castKeys(w.Cast)}
	for _, name := range w.order {
		b := w.built[name]
		d := b.Dlg
		if b.Signer < 0 {
			// a hand-written block: no construction knowledge, the signer is the observed one
			sk, _ := tvObserve(d, sn.keys, nil, nil)
			b.Signer = 0
			if len(sk) > 0 {
				b.Signer = sk[0]
			}
		}
		ts := tvTokSnap{link: w.lid(d.Link()), bytes: d.Root().Bytes(), tok: w.coqToken(b), dlg: d}
		if m := d.Data().Model(); m != nil {
			ts.iss, ts.aud = m.Iss, m.Aud
		}
		sn.toks = append(sn.toks, ts)
	}
	for i, s := range w.links {
		cd, err := cid.Decode(s)
		if err != nil {
			continue
		}
		sn.links = append(sn.links, fmt.Sprintf("(%s, %d)", hx(cd.Bytes()), i+1))
	}
	return sn
}

// tvFinish observes the signatures and renders the record (run on all CPUs by flushTokenViews).
func tvFinish(sn *tvSnap) *tvResult {
	res := &tvResult{full: sn.full, stats: map[string]int{}}
	var calls []string
	var callsp *[]string
	if sn.full {
		callsp = &calls
	}
	var toks []string
	for _, t := range sn.toks {
		sigkeys, verifs := tvObserve(t.dlg, sn.keys, callsp, res.stats)
		if len(sigkeys) > 0 {
			res.stats["tokens_with_a_verifying_key"]++
		}
		if len(sigkeys) > 0 && len(verifs) == 0 {
			res.stats["tokens_signed_by_another_principal_or_wrapped"]++
		}
		res.dids = append(res.dids, t.iss, t.aud)
		res.tokens++
		toks = append(toks, fmt.Sprintf("{| tt_link := %d; tt_bytes := %s;\n    tt_tok := %s;\n    tt_sigkeys := %s; tt_verifs := %s |}",
			t.link, hx(t.bytes), t.tok, coqNList(sigkeys), coqNList(verifs)))
	}
	var ks []string
	for _, k := range sn.keys {
		res.dids = append(res.dids, k.did.Bytes())
		ks = append(ks, fmt.Sprintf("(%d, %s, %s)", k.id, hx(k.did.Bytes()), hxs(k.alg)))
	}
	res.rec = fmt.Sprintf("{| tv_id := %d;\n  tv_links := [%s];\n  tv_keys := [%s];\n  tv_toks := %s;\n  tv_calls := [%s] |}",
		sn.id, strings.Join(sn.links, "; "), strings.Join(ks, "; "), coqList(toks), strings.Join(calls, ";\n   "))
	return res
}

// tvFile writes one case file: interned packed constants, the DID table of the DIDs that occur in
// it (computed once, as Check_Json does), the worlds and the evaluation.
func tvFile(dir, name string, rs []*tvResult, fn string) error {
	var sb bytes.Buffer
	sb.WriteString("From Coq Require Import Uint63.\nFrom Ucanto Require Import Base Pattern Time Validator Check_CBOR Check_Json TokenView Check_TokenView.\nOpen Scope N_scope.\n")
	var recs []string
	dids := map[string]bool{}
	for _, r := range rs {
		recs = append(recs, r.rec)
		for _, d := range r.dids {
			if len(d) > 0 {
				dids[string(d)] = true
			}
		}
	}
	body := coqList(recs)
	var dkeys []string
	for k := range dids {
		dkeys = append(dkeys, k)
	}
	sort.Strings(dkeys)
	var ds []string
	for _, k := range dkeys {
		ds = append(ds, hx([]byte(k)))
	}
	defs, out := internPacked("Definition dids : list bstr := " + coqList(ds) + ".\nDefinition worlds : list tvworld := " + body + ".\n")
	sb.WriteString(defs)
	sb.WriteString(out)
	sb.WriteString("Definition tbl : list (bstr * bstr) := Eval vm_compute in (did_table dids).\n")
	fmt.Fprintf(&sb, "Definition M := Eval vm_compute in %s tbl worlds.\nPrint M.\n", fn)
	return writeFile(dir, name, sb.String())
}

func tvShards(dir, pattern string, recs []*tvResult, shards int, fn string) error {
	if len(recs) == 0 {
		return nil
	}
	if shards > len(recs) {
		shards = len(recs)
	}
	per := (len(recs) + shards - 1) / shards
	for k := 0; k*per < len(recs); k++ {
		hi := (k + 1) * per
		if hi > len(recs) {
			hi = len(recs)
		}
		if err := tvFile(dir, fmt.Sprintf(pattern, k), recs[k*per:hi], fn); err != nil {
			return err
		}
	}
	return nil
}

// flushTokenViews renders the queued worlds (in parallel) and writes the case files (called by
// writeWorldCases).
func flushTokenViews(dir, prefix string, shards int) error {
	if len(tvQueue) == 0 {
		return nil
	}
	queue := tvQueue
	tvQueue, tvSeen = nil, map[*World]bool{}
	// large tiers: an evenly spaced sample of at most tokenViewMaxWorlds worlds, at most tokenViewPerFile worlds per
	// case file (the per-file DID table and the number of constants stay bounded, so the cost is linear)
	if n := len(queue); n > tokenViewMaxWorlds {
		stride := (n + tokenViewMaxWorlds - 1) / tokenViewMaxWorlds
		var sampled []*tvSnap
		for i := 0; i < n; i += stride {
			sampled = append(sampled, queue[i])
		}
		queue = sampled
		for i, sn := range queue {
			sn.full = tokenViewFullEvery > 0 && i%tokenViewFullEvery == 0
		}
	}
	if shards < 1 {
		shards = 1
	}
	if need := (len(queue) + tokenViewPerFile - 1) / tokenViewPerFile; need > shards {
		shards = need
	}
	tag := strings.TrimPrefix(prefix, "cases_")
	results := make([]*tvResult, len(queue))
	var wg sync.WaitGroup
	sem := make(chan struct{}, runtime.NumCPU())
	for i := range queue {
		wg.Add(1)
		sem <- struct{}{}
		go func(i int) {
			defer wg.Done()
			defer func() { <-sem }()
			results[i] = tvFinish(queue[i])
		}(i)
	}
	wg.Wait()
	var blockLabels map[string]string
	var blockRes []*tvResult
	if tag == "C01" || os.Getenv("VERIF_TOKENVIEW_BLOCKS") != "" {
		blockLabels, blockRes = tvBlockWorlds(argSeed()) // hand-written root blocks (tokenview_blocks.go)
		if err := writeJSON(dir, "tview_blocks_"+tag+".json", blockLabels); err != nil {
			return err
		}
	}
	dids := map[string][]byte{}
	stats := map[string]int{}
	tokens := 0
	var cheap, full []*tvResult
	for _, r := range append(append([]*tvResult{}, results...), blockRes...) {
		for _, d := range r.dids {
			dids[string(d)] = d
		}
		for k, v := range r.stats {
			stats[k] += v
		}
		tokens += r.tokens
	}
	for _, r := range results {
		// a world checked against the observed (key, message, signature) table is not checked a second time
		// against the per-token key sets: the former check is the stronger one
		if r.full {
			full = append(full, r)
		} else {
			cheap = append(cheap, r)
		}
	}
	if err := tvShards(dir, "tview_"+tag+"_%02d.v", cheap, shards, "check_views"); err != nil {
		return err
	}
	fsh := (shards + 3) / 4
	if err := tvShards(dir, "tview_"+tag+"_full_%02d.v", full, fsh, "check_views_full"); err != nil {
		return err
	}
	if err := tvShards(dir, "tview_"+tag+"_full_blocks_%02d.v", blockRes, len(blockRes), "check_views_full"); err != nil {
		return err
	}
	st := map[string]any{"worlds": len(results), "tokens": tokens, "distinct_dids": len(dids),
		"worlds_checked_with_observed_messages": len(full), "hand_written_blocks": len(blockLabels)}
	for k, v := range stats {
		st[k] = v
	}
	return writeJSON(dir, "tview_stats_"+tag+".json", st)
}

// internPacked is internHex with the constants written as packed primitive-integer literals
// (Check_CBOR.pk), left unevaluated: Coq type-checks a definition's evaluated byte list at ~10 us
// per node, which dominates the run time of a case file that carries whole token blocks; the
// packed literal is 25 times smaller and is unpacked inside the one vm_compute of the check.
func internPacked(body string) (defs string, out string) {
	names := map[string]string{}
	var sb strings.Builder
	out = hxRe.ReplaceAllStringFunc(body, func(m string) string {
		h := hxRe.FindStringSubmatch(m)[1]
		if n, ok := names[h]; ok {
			return n
		}
		b, err := hex.DecodeString(h)
		if err != nil || len(b) <= 8 {
			return m
		}
		n := fmt.Sprintf("s_%d", len(names))
		names[h] = n
		fmt.Fprintf(&sb, "Definition %s : bstr := %s.\n", n, pk(b))
		return n
	})
	return sb.String(), out
}

// argSeed: the -seed of the running `gen` command (1 when absent)
func argSeed() int64 {
	for i, a := range os.Args {
		if (a == "-seed" || a == "--seed") && i+1 < len(os.Args) {
			var v int64
			fmt.Sscan(os.Args[i+1], &v)
			return v
		}
	}
	return 1
}
