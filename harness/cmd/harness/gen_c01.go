package main

import (
	"fmt"
	"math/rand"
	"strings"
)

type worldStats struct {
	Worlds      int            `json:"worlds"`
	Authorized  int            `json:"authorized"`
	Panics      int            `json:"panics"`
	ByDepth     map[int]int    `json:"by_depth"`
	ByDefect    map[string]int `json:"by_defect_kind"`
	ByDefectPos map[string]int `json:"by_defect_kind_at_position"`
	ByNDefects  map[int]int    `json:"by_number_of_defects"`
	Decoys      int            `json:"decoy_proofs"`
	RSAWorlds   int            `json:"worlds_with_rsa_issuer"`
	Verifies    int            `json:"signature_verifications_observed"`
	Kinds       map[string]int `json:"by_generator"`
	Signatures  map[string]int `json:"distinct_world_signatures"`
	Samples     []any          `json:"samples"`
	PanicList   []string       `json:"panic_list"`
	// tokens whose accessors (Issuer, Audience, Expiration, NotBefore, Proofs) report something else than what was issued
	AccessorMismatches []string `json:"accessor_mismatches"`
}

// curStats: where Build() records accessor mismatches (the model is fed from the accessors: they must tell what the token says)
var curStats *worldStats

func newWorldStats() *worldStats {
	curStats = &worldStats{ByDepth: map[int]int{}, ByDefect: map[string]int{}, ByDefectPos: map[string]int{},
		ByNDefects: map[int]int{}, Kinds: map[string]int{}, Signatures: map[string]int{}}
	return curStats
}

func (s *worldStats) addChain(info chainInfo) {
	s.ByDepth[info.Depth]++
	s.ByNDefects[len(info.Defects)]++
	for _, d := range info.Defects {
		s.ByDefectPos[d]++
		s.ByDefect[strings.SplitN(d, "@", 2)[0]]++
	}
	s.Decoys += info.Decoys
	if info.RSA {
		s.RSAWorlds++
	}
}

// runAndRender builds and runs a world; returns the Gallina case (or "" when the world could not be built).
func runAndRender(w *World, st *worldStats, label string) (string, *Obs, error) {
	if err := w.Build(); err != nil {
		return "", nil, err
	}
	obs := w.Run()
	st.Worlds++
	st.Kinds[w.Kind]++
	if obs.Authorized {
		st.Authorized++
	}
	st.Verifies += len(obs.Verifies)
	if obs.Panic != "" {
		st.Panics++
		st.PanicList = append(st.PanicList, fmt.Sprintf("world %d (%s): %s", w.ID, label, obs.Panic))
	}
	sig := fmt.Sprintf("%s|auth=%v|path=%d|verifs=%d|checks=%d|derives=%d", label, obs.Authorized, len(obs.Path), len(obs.Verifies), len(obs.Checks), len(obs.Derives))
	st.Signatures[sig]++
	if len(st.Samples) < 6 {
		st.Samples = append(st.Samples, map[string]any{"world": w.ID, "label": label, "authorized": obs.Authorized,
			"path_length": len(obs.Path), "verifications": len(obs.Verifies), "checker_calls": len(obs.Checks), "derives_calls": len(obs.Derives)})
	}
	return w.Coq(obs), obs, nil
}

func init() {
	gens["C01"] = func(o genOpts) error {
		n := 900
		if o.tier == "thorough" {
			n = 20000
		}
		r := rand.New(rand.NewSource(o.seed))
		st := newWorldStats()
		var cases, ddCases []string
		labels := map[int]string{}
		for i := 0; i < n; i++ {
			k := chainKnobs{MaxDepth: 5, Defects: []int{0, 0, 1, 1, 1, 2}, Decoys: 0, RSA: true, Resolver: true, Caveats: true}
			if i%3 == 2 {
				k.Decoys = 2
			}
			if o.tier == "thorough" {
				k.MaxDepth = 7
			}
			w, info := chainWorld(r, i, o.seed, k)
			label := ""
			if i%25 == 24 {
				// a chain through an issuer WITHOUT a key: its token is acceptable only with the authority's attestation
				// for exactly that token (an attestation for another token, by a stranger, expired, or none at all is not)
				so := sessOpts{Attested: pick(r, []string{"this", "this", "other", "none"}), AttIssuer: pick(r, []string{"authority", "authority", "delegate", "stranger"}),
					Resource: pick(r, []string{"authority", "authority", "other"}), Window: pick(r, []string{"valid", "valid", "expired"}),
					Pos: r.Intn(3), Resolver: pick(r, []string{"absent", "absent", "correct", "wrong"}), ParentProof: r.Intn(6), Decoys: r.Intn(3)}
				if i%50 == 49 {
					// every proof has the citing issuer as audience — the attestation included: a genuine attestation of exactly
					// this token, by the authority, in its window, but delegated to somebody else, does not count
					so = sessOpts{Attested: "this", AttIssuer: "authority", Resource: "authority", Window: "valid", Pos: 1 + r.Intn(2),
						Resolver: "absent", Decoys: r.Intn(2), AttAudience: "stranger"}
				}
				var sl string
				w, sl = sessionWorld(o.seed, i, so)
				w.ID = i
				info = chainInfo{Depth: so.Pos, Decoys: so.Decoys}
				label = "session " + sl
			}
			st.addChain(info)
			if label == "" {
				label = fmt.Sprintf("depth=%d defects=%s", info.Depth, strings.Join(info.Defects, ","))
			}
			if i%10 == 7 && w.Kind != "session" {
				// the capability is declared WITHOUT a derivation rule (NewCapability(..., nil)): resource containment still binds
				w.NilDerives = true
				label += " no-derivation-rule"
			}
			c, _, err := runAndRender(w, st, label)
			if err != nil {
				return err
			}
			labels[i] = label
			if w.NilDerives {
				ddCases = append(ddCases, c)
			} else {
				cases = append(cases, c)
			}
		}
		// gen_cov.go: several capabilities in one invocation, default expiration; validator.Claim with links
		xw, xl := covExtraWorlds(o.seed, n, false)
		for i, w := range xw {
			c, _, err := runAndRender(w, st, xl[i])
			if err != nil {
				return err
			}
			labels[w.ID] = xl[i]
			cases = append(cases, c)
		}
		claimCases, err := covClaimCases(o.seed, n+len(xw), st, labels)
		if err != nil {
			return err
		}
		if err := writeClaimCases(o.out, "cases_C01claim", claimCases); err != nil {
			return err
		}
		// chains under the library's default policy through real servers, two in five of them built WITHOUT options: the
		// chain has to end at a principal entitled to issue there too (also when its root is the service's own key)
		var srvWorlds []*World
		rs := rand.New(rand.NewSource(o.seed + 4242))
		nsrvw := 120
		if o.tier == "thorough" {
			nsrvw = 3000
		}
		for i := 0; i < nsrvw; i++ {
			k := chainKnobs{MaxDepth: 3, Defects: []int{0, 1, 1}, Decoys: 0, Caveats: true, ForcePolicy: "self"}
			w, info := chainWorld(rs, 200000+i, o.seed, k)
			st.addChain(info)
			labels[200000+i] = fmt.Sprintf("through a server: depth=%d defects=%s", info.Depth, strings.Join(info.Defects, ","))
			srvWorlds = append(srvWorlds, w)
		}
		if _, err := serverPass(o, "C01", srvWorlds, nil); err != nil {
			return err
		}
		shards := 16
		if err := writeWorldCases(o.out, "cases_C01", cases, shards, "check_worlds"); err != nil {
			return err
		}
		if err := writeWorldCases(o.out, "cases_C01dd", ddCases, 4, "check_worlds_dd"); err != nil {
			return err
		}
		if err := writeJSON(o.out, "labels.json", labels); err != nil {
			return err
		}
		return writeJSON(o.out, "stats.json", st)
	}
}
