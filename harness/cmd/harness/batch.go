package main

// batch.go — batches of invocations sent to a real server (server.NewServer +
// client.Execute) with recording handlers: C08, C09 (and the well-formed part of C11).

import (
	"crypto/sha256"
	"fmt"
	"github.com/ipfs/go-cid"
	cidlink "github.com/ipld/go-ipld-prime/linking/cid"
	"github.com/storacha/go-ucanto/core/delegation"
	"github.com/storacha/go-ucanto/core/ipld/block"
	"github.com/storacha/go-ucanto/did"
	"math/rand"
	"sort"
	"strings"
	"sync"
	"sync/atomic"
	"time"

	ipldprime "github.com/ipld/go-ipld-prime"
	"github.com/ipld/go-ipld-prime/codec/dagcbor"
	"github.com/ipld/go-ipld-prime/datamodel"
	"github.com/storacha/go-ucanto/client"
	"github.com/storacha/go-ucanto/core/dag/blockstore"
	"github.com/storacha/go-ucanto/core/invocation"
	"github.com/storacha/go-ucanto/core/ipld"
	"github.com/storacha/go-ucanto/core/message"
	"github.com/storacha/go-ucanto/core/receipt/fx"
	"github.com/storacha/go-ucanto/core/result/ok"
	"github.com/storacha/go-ucanto/principal"
	"github.com/storacha/go-ucanto/server"
	"github.com/storacha/go-ucanto/transport"
	tcar "github.com/storacha/go-ucanto/transport/car"
	"github.com/storacha/go-ucanto/ucan"
	"github.com/storacha/go-ucanto/validator"
)

// selfRefInvocation builds an invocation by `who` on a resource it does not own, whose only proof is a delegation
// (who -> who, correctly signed) that lists ITSELF as its proof: both the block's address and the proof link are the
// dag-cbor CID with a zero-length sha2-256 digest.
func selfRefInvocation(who, service *Prin, resource string) (invocation.Invocation, error) {
	zero, err := cid.Cast([]byte{0x01, 0x71, 0x12, 0x00})
	if err != nil {
		return nil, err
	}
	l := cidlink.Link{Cid: zero}
	d, err := delegation.Delegate(who.Signer, who.DID, []ucan.Capability[ucan.CaveatBuilder]{
		ucan.NewCapability[ucan.CaveatBuilder]("store/add", resource, Cav{})}, delegation.WithNoExpiration(), delegation.WithProof(delegation.FromLink(l)))
	if err != nil {
		return nil, err
	}
	inv, err := invocation.Invoke(who.Signer, service.DID, ucan.NewCapability[ucan.CaveatBuilder]("store/add", resource, Cav{}),
		delegation.WithNoExpiration(), delegation.WithProof(delegation.FromLink(l)))
	if err != nil {
		return nil, err
	}
	if err := inv.Attach(block.NewBlock(l, d.Root().Bytes())); err != nil {
		return nil, err
	}
	return inv, nil
}

type Batch struct {
	DefaultOpts bool // build the server with NO validation options (library defaults); the world's context must be the defaults
	SelfRef  bool // also send an invocation whose proof is a self-referential delegation (see selfRefInvocation)
	ID       int
	W        *World            // combined world: all tokens of all invocations, shared context
	Invs     []string          // token names of the invocations, in execute order (duplicates allowed)
	Handlers map[string]string // ability -> "ok" | "okfx" | "okjoin" | "okfxjoin" | "okfxinv" | "fail" | "badout"; abilities without entry have no handler
	Perturb  int64             // seed of the schedule perturbation (0: none)
	Label    string
}

type callRec struct {
	Can, With string
	Nb        datamodel.Node
	HandlerOf string
	Inv       string
}

type rcptObs struct {
	Inv     string // invocation link
	Found   bool
	FxBad   string // non-empty: the receipt's effects are not the ones the handler returned
	Forks   []string // fork links written in the receipt's outcome, in order (read when Decoded)
	Join    string   // join link written in the receipt's outcome ("": none)
	Class   string // "ok" | error name | "?" when undecodable
	Ran     string
	Issuer  string
	Rcpt    string
	Decoded bool
	Direct  string // class of the receipt returned by ServerView.Run for the same invocation
}

type BatchObs struct {
	mu          sync.Mutex
	Calls       []callRec
	Rcpts       []rcptObs
	ExecErr     string
	NReceipts   int // number of entries in the report (distinct keys)
	DirectCalls int // handler calls made while the invocations were run again through ServerView.Run
	DirectRan   bool
	Panic       string
	// non-empty: the message server.Execute returns (used as it is, no encode/decode) does not answer Get like the
	// response the client decoded
	ExecDirect string
}

type unencodable struct{}

func (unencodable) ToIPLD() (datamodel.Node, error) {
	return nil, fmt.Errorf("value cannot be encoded")
}

type batchRun struct {
	obs *BatchObs
	r   *rand.Rand
	rmu *sync.Mutex
}

// the batch whose server is being exercised (handlers of shared providers record into it)
var currentBatch atomic.Pointer[batchRun]

var providerMu sync.Mutex
var providers = map[string]server.ServiceMethod[ipld.Builder]{}

func sharedProvider(can, kind string) server.ServiceMethod[ipld.Builder] {
	providerMu.Lock()
	defer providerMu.Unlock()
	key := can + "|" + kind
	if p, ok := providers[key]; ok {
		return p
	}
	// kind "...+didwith": the capability reads its resource with schema.DIDString()
	didWith := strings.HasSuffix(kind, "+didwith")
	didKey := strings.HasSuffix(kind, "+didkey") // ... with schema.DIDString(schema.WithMethod("key"))
	kind = baseKind(kind)
	dw := &World{Can: can, DIDWith: didWith || didKey}
	if didKey {
		dw.DIDMethod = "key"
	}
	desc := dw.descriptor(&Obs{})
	h := func(cap ucan.Capability[Cav], inv invocation.Invocation, ctx server.InvocationContext) (ipld.Builder, fx.Effects, error) {
		cur := currentBatch.Load()
		if cur != nil && cur.r != nil {
			cur.rmu.Lock()
			d := time.Duration(cur.r.Intn(300)) * time.Microsecond
			cur.rmu.Unlock()
			time.Sleep(d)
		}
		if cur != nil {
			cur.obs.mu.Lock()
			cur.obs.Calls = append(cur.obs.Calls, callRec{cap.Can(), cap.With(), nbNode(cap.Nb()), can, inv.Link().String()})
			cur.obs.mu.Unlock()
		}
		switch kind {
		case "fail":
			return nil, nil, fmt.Errorf("handler failed")
		case "badout":
			// the handler succeeds but its value cannot be turned into IPLD
			return unencodable{}, nil, nil
		case "okfx":
			return ok.Unit{}, fx.NewEffects(fx.WithFork(fx.FromLink(fakeLink(777)))), nil
		case "okjoin":
			return ok.Unit{}, fx.NewEffects(fx.WithJoin(fx.FromLink(fakeLink(778)))), nil
		case "okfxjoin":
			return ok.Unit{}, fx.NewEffects(fx.WithFork(fx.FromLink(fakeLink(777)), fx.FromLink(fakeLink(779))), fx.WithJoin(fx.FromLink(fakeLink(778)))), nil
		case "okfxinv":
			// effects given as embedded INVOCATIONS (their blocks travel with the receipt), next to a plain link
			return ok.Unit{}, fx.NewEffects(fx.WithFork(fx.FromInvocation(fxInvocation(1)), fx.FromLink(fakeLink(777))), fx.WithJoin(fx.FromInvocation(fxInvocation(2)))), nil
		}
		return ok.Unit{}, nil, nil
	}
	p := server.Provide[Cav, ipld.Builder](desc, h)
	providers[key] = p
	return p
}

// fxInvocation: the invocations the "okfxinv" handler returns as effects (issued once per process)
var fxInvMu sync.Mutex
var fxInvs = map[int]invocation.Invocation{}

func fxInvocation(i int) invocation.Invocation {
	fxInvMu.Lock()
	defer fxInvMu.Unlock()
	if v, ok := fxInvs[i]; ok {
		return v
	}
	c := newCast(int64(424242 + i))
	who, svc := c.Ed("fx-issuer"), c.Ed("fx-service")
	v, err := invocation.Invoke(who.Signer, svc.DID, ucan.NewCapability[ucan.CaveatBuilder]("fx/task", who.DID.String(), Cav{}),
		delegation.WithNoExpiration(), delegation.WithNonce(fmt.Sprintf("fx-%d", i)))
	if err != nil {
		panic(err)
	}
	fxInvs[i] = v
	return v
}

// kindEffects: the effects the handler of the given kind returns with its value (sharedProvider), as links:
// the fork links in order and the join (nil: none). An effect given as an invocation is named by its link.
func kindEffects(kind string) (forks []ipld.Link, join ipld.Link) {
	switch baseKind(kind) {
	case "okfx":
		return []ipld.Link{fakeLink(777)}, nil
	case "okjoin":
		return nil, fakeLink(778)
	case "okfxjoin":
		return []ipld.Link{fakeLink(777), fakeLink(779)}, fakeLink(778)
	case "okfxinv":
		return []ipld.Link{fxInvocation(1).Link(), fakeLink(777)}, fxInvocation(2).Link()
	}
	return nil, nil
}

// lidStr: the number of a link given by its string (interned like lid)
func (w *World) lidStr(s string) int {
	if id, ok := w.linkID[s]; ok {
		return id
	}
	id := len(w.links) + 1
	w.linkID[s] = id
	w.links = append(w.links, s)
	return id
}

// coqEffects renders (fork links in order, join) as a Gallina `effects`
func (w *World) coqEffects(forks []string, join string) string {
	var fs []string
	for _, f := range forks {
		fs = append(fs, fmt.Sprint(w.lidStr(f)))
	}
	j := "None"
	if join != "" {
		j = fmt.Sprintf("Some %d", w.lidStr(join))
	}
	return fmt.Sprintf("([%s], %s)", strings.Join(fs, "; "), j)
}

// newServer builds a real server for the batch with recording handlers.
func (b *Batch) newServer(obs *BatchObs) (server.ServerView, error) {
	w := b.W
	dummy := &Obs{}
	var opts []server.Option
	if c := w.Ctx; (b.ID%5 == 2 || b.ID%5 == 4) && c.SelfIssued && len(c.Owners) == 0 && len(c.Revoked) == 0 && len(c.Resolvable) == 0 &&
		len(c.KeyResolver) == 0 && c.ParserKind == "ed" {
		b.DefaultOpts = true // the context is exactly the library's defaults: two in five such batches run on a server built without options
	}
	if b.ID%3 == 1 {
		// the inbound codec named explicitly (the value the library defaults to): nothing else may change
		opts = append(opts, server.WithInboundCodec(tcar.NewCARInboundCodec()))
	}
	// every seventh batch: no error handler is configured (the library's default handler logs to stderr); a failing
	// handler must still produce its error receipt and nothing else
	noCatch := b.ID%7 == 3
	if b.DefaultOpts {
		// the server as most services build it: NewServer(id, handlers...) and nothing else — every validation option
		// at the library's default (self-issued only, nothing revoked, no proof resolver, did:key principals, no DID resolution);
		// only set when the world's context IS those defaults
		if !noCatch {
			opts = append(opts, server.WithErrorHandler(func(err server.HandlerExecutionError[any]) {}))
		}
	} else if (b.ID/2+b.ID)%2 == 1 {
		// every option given TWICE, a permissive / useless value first: the configured (last) one must be in force
		opts = append(opts,
			server.WithCanIssue(func(ucan.Capability[any], did.DID) bool { return true }),
			server.WithRevocationChecker(func(validator.Authorization[any]) validator.Revoked { return nil }),
			server.WithProofResolver(validator.ProofUnavailable),
			server.WithPrincipalResolver(validator.FailDIDKeyResolution),
		)
	}
	if !b.DefaultOpts {
		opts = append(opts,
			server.WithCanIssue(w.canIssue),
			server.WithRevocationChecker(w.checker(dummy)),
			server.WithProofResolver(w.resolver()),
			server.WithPrincipalParser(w.parser(dummy)),
			server.WithPrincipalResolver(w.keyResolver()),
		)
		if !noCatch {
			opts = append(opts, server.WithErrorHandler(func(err server.HandlerExecutionError[any]) {}))
		}
	}
	var r *rand.Rand
	if b.Perturb != 0 {
		r = rand.New(rand.NewSource(b.Perturb))
	}
	var rmu sync.Mutex
	abilities := make([]string, 0, len(b.Handlers))
	for can := range b.Handlers {
		abilities = append(abilities, can)
	}
	sort.Strings(abilities)
	for _, can := range abilities {
		kind := b.Handlers[can]
		// the SAME Provide(...) value is registered on every server this process creates
		// (a provider must not remember anything about the server it first ran on)
		opts = append(opts, server.WithServiceMethod(can, sharedProvider(can, kind)))
	}
	currentBatch.Store(&batchRun{obs: obs, r: r, rmu: &rmu})
	return server.NewServer(w.Ctx.Authority.Signer.(principal.Signer), opts...)
}

// decodeReceipt reads class / ran / issuer out of a receipt root block, independently of the receipt reader.
// receiptEffects: fork links and join link written in a receipt's outcome
func receiptEffects(b []byte) (forks []string, join string) {
	n, err := ipldprime.Decode(b, dagcbor.Decode)
	if err != nil {
		return nil, ""
	}
	ocm, err := n.LookupByString("ocm")
	if err != nil {
		return nil, ""
	}
	f, err := ocm.LookupByString("fx")
	if err != nil {
		return nil, ""
	}
	if fk, err := f.LookupByString("fork"); err == nil && fk.Kind() == datamodel.Kind_List {
		for it := fk.ListIterator(); !it.Done(); {
			_, v, err := it.Next()
			if err != nil {
				break
			}
			if l, err := v.AsLink(); err == nil {
				forks = append(forks, l.String())
			}
		}
	}
	if j, err := f.LookupByString("join"); err == nil {
		if l, err := j.AsLink(); err == nil {
			join = l.String()
		}
	}
	return forks, join
}

func decodeReceipt(b []byte) (class, ran, iss string, okk bool) {
	n, err := ipldprime.Decode(b, dagcbor.Decode)
	if err != nil {
		return "?", "", "", false
	}
	ocm, err := n.LookupByString("ocm")
	if err != nil {
		return "?", "", "", false
	}
	if rn, err := ocm.LookupByString("ran"); err == nil {
		if l, err := rn.AsLink(); err == nil {
			ran = l.String()
		}
	}
	if in, err := ocm.LookupByString("iss"); err == nil {
		iss, _ = in.AsString()
	}
	out, err := ocm.LookupByString("out")
	if err != nil {
		return "?", ran, iss, false
	}
	if _, err := out.LookupByString("ok"); err == nil {
		return "ok", ran, iss, true
	}
	if e, err := out.LookupByString("error"); err == nil {
		if nm, err := e.LookupByString("name"); err == nil {
			s, _ := nm.AsString()
			return s, ran, iss, true
		}
		return "error", ran, iss, true
	}
	return "?", ran, iss, false
}

// once a few requests were never answered the rest of the run does not wait long for the others
var hangs atomic.Int32

func hangTimeout() time.Duration {
	if hangs.Load() >= 2 {
		return 2 * time.Second
	}
	return 30 * time.Second
}

// Run sends the batch through client.Execute to the in-process server (the server is the channel).
func (b *Batch) Run(channel func(srv server.ServerView) transport.Channel) *BatchObs {
	obs := &BatchObs{}
	if p := recovered(func() {
		srv, err := b.newServer(obs)
		if err != nil {
			obs.ExecErr = "server: " + err.Error()
			return
		}
		var ch transport.Channel = srv
		if channel != nil {
			ch = channel(srv)
		}
		b.runOn(ch, b.Invs, obs)
		// the single-invocation entry point must give the same receipt (and run nothing more than the model says)
		ncalls := len(obs.Calls)
		seen := map[string]bool{}
		// Run is given each invocation as the server sees it in the request: a view over ALL blocks of the message
		// (a proof cited by link only may travel with another invocation of the same batch)
		var all []invocation.Invocation
		for _, n := range b.Invs {
			all = append(all, b.W.built[n].Dlg)
		}
		var msgBlocks blockstore.BlockReader
		if msg, err := message.Build(all, nil); err == nil {
			msgBlocks, _ = blockstore.NewBlockReader(blockstore.WithBlocksIterator(msg.Blocks()))
		}
		for _, n := range b.Invs {
			inv := b.W.built[n].Dlg
			if seen[inv.Link().String()] {
				continue
			}
			seen[inv.Link().String()] = true
			if msgBlocks != nil {
				if v, err := invocation.NewInvocationView(inv.Link(), msgBlocks); err == nil {
					inv = v
				}
			}
			var cls string
			if p := recovered(func() {
				rc, err := srv.Run(inv)
				if err != nil {
					cls = "run-error"
					return
				}
				cls, _, _, _ = decodeReceipt(rc.Root().Bytes())
			}); p != nil {
				cls = "panic: " + fmt.Sprint(p)
			}
			for i := range obs.Rcpts {
				if obs.Rcpts[i].Inv == inv.Link().String() {
					obs.Rcpts[i].Direct = cls
				}
			}
		}
		obs.DirectCalls = len(obs.Calls) - ncalls
		obs.DirectRan = true
		obs.Calls = obs.Calls[:ncalls]
		// the response message exactly as server.Execute hands it over (an application embedding the server uses it
		// without a codec round trip): Get finds the receipt of every invocation the client found one for
		if obs.ExecErr == "" && len(all) > 0 {
			if p := recovered(func() {
				msg, err := message.Build(all, nil)
				if err != nil {
					return
				}
				out, err := server.Execute(srv, msg)
				if err != nil || out == nil {
					obs.ExecDirect = fmt.Sprintf("server.Execute on the built message failed (%v) although the same batch was answered through the client", err)
					return
				}
				oblocks := map[string][]byte{}
				for blk, err := range out.Blocks() {
					if err == nil {
						oblocks[blk.Link().String()] = blk.Bytes()
					}
				}
				for _, ro := range obs.Rcpts {
					if !ro.Found || !ro.Decoded {
						continue
					}
					var l ipld.Link
					for _, n := range b.Invs {
						if b.W.built[n].Dlg.Link().String() == ro.Inv {
							l = b.W.built[n].Dlg.Link()
						}
					}
					if l == nil {
						continue
					}
					rl, found := out.Get(l)
					if !found || rl == nil {
						obs.ExecDirect = fmt.Sprintf("the message server.Execute returned has no receipt retrievable for invocation %s (position %d of %d); the decoded response has", ro.Inv, indexOf(b, ro.Inv), len(b.Invs))
						return
					}
					bb, ok := oblocks[rl.String()]
					if !ok {
						obs.ExecDirect = "the message server.Execute returned names a receipt whose block it does not carry, for invocation " + ro.Inv
						return
					}
					if cls, ran, _, _ := decodeReceipt(bb); cls != ro.Class || ran != ro.Inv {
						obs.ExecDirect = fmt.Sprintf("the message server.Execute returned files under invocation %s a receipt of class %s for %s; the decoded response has class %s", ro.Inv, cls, ran, ro.Class)
						return
					}
				}
			}); p != nil {
				obs.ExecDirect = fmt.Sprintf("server.Execute / Get on its message panicked: %v", p)
			}
			obs.Calls = obs.Calls[:ncalls]
		}
	}); p != nil {
		obs.Panic = fmt.Sprint(p)
	}
	return obs
}

// RunPhases sends the same batch to ONE server several times; before each request `phase` changes the world
// (e.g. revokes a delegation). Returns one (observation, rendered case) per phase: what the server did THEN
// must be what the model says for the world as it was THEN — a server that remembers an earlier verdict is wrong.
func (b *Batch) RunPhases(phases []func()) (obsList []*BatchObs, rendered []string) {
	first := &BatchObs{}
	srv, err := b.newServer(first)
	if err != nil {
		first.ExecErr = "server: " + err.Error()
		return []*BatchObs{first}, nil
	}
	for i, ph := range phases {
		obs := first
		if i > 0 {
			obs = &BatchObs{}
			var rmu sync.Mutex
			currentBatch.Store(&batchRun{obs: obs, rmu: &rmu})
		}
		ph()
		if p := recovered(func() { b.runOn(srv, b.Invs, obs) }); p != nil {
			obs.Panic = fmt.Sprint(p)
		}
		obsList = append(obsList, obs)
		rendered = append(rendered, b.Coq(obs))
	}
	return obsList, rendered
}

// RunConcurrent sends several requests (groups of invocation names) to ONE server at the same time.
// Handler calls are attributed to the request that carries the invocation.
func (b *Batch) RunConcurrent(groups [][]string, channel func(srv server.ServerView) transport.Channel) []*BatchObs {
	shared := &BatchObs{}
	res := make([]*BatchObs, len(groups))
	for i := range res {
		res[i] = &BatchObs{}
	}
	srv, err := b.newServer(shared)
	if err != nil {
		for _, r := range res {
			r.ExecErr = "server: " + err.Error()
		}
		return res
	}
	var ch transport.Channel = srv
	if channel != nil {
		ch = channel(srv)
	}
	var wg sync.WaitGroup
	for i, g := range groups {
		wg.Add(1)
		go func(i int, g []string) {
			defer wg.Done()
			if p := recovered(func() { b.runOn(ch, g, res[i]) }); p != nil {
				res[i].Panic = fmt.Sprint(p)
			}
		}(i, g)
	}
	wg.Wait()
	for i, g := range groups {
		mine := map[string]bool{}
		for _, n := range g {
			mine[b.W.built[n].Dlg.Link().String()] = true
		}
		for _, c := range shared.Calls {
			if mine[c.Inv] {
				res[i].Calls = append(res[i].Calls, c)
			}
		}
	}
	return res
}

func (b *Batch) runOn(ch transport.Channel, names []string, obs *BatchObs) {
	var copts []client.Option
	if b.ID%2 == 0 {
		// the connection options named explicitly (the values the library defaults to): nothing else may change
		copts = append(copts, client.WithOutboundCodec(tcar.NewCAROutboundCodec()), client.WithHasher(sha256.New))
	}
	if b.ID%4 == 1 {
		copts = append(copts, client.WithHasher(nil)) // no hasher factory: the default (SHA-256) stays in force
	}
	conn, err := client.NewConnection(b.W.Ctx.Authority.DID, ch, copts...)
	if err != nil {
		obs.ExecErr = "connection: " + err.Error()
		return
	}
	if mm := covConnAccessors(conn, b.W.Ctx.Authority.DID, ch); mm != "" {
		obs.ExecErr = "connection: " + mm // gen_cov.go: ID / Channel / Codec / Hasher give back what the connection was built with
		return
	}
	var invs []invocation.Invocation
	for _, n := range names {
		invs = append(invs, b.W.built[n].Dlg)
	}
	if b.SelfRef {
		who := b.W.Cast.Ed("selfref")
		if sr, err := selfRefInvocation(who, b.W.Ctx.Authority, b.W.Cast.Ed("selfref-other").DID.String()); err == nil {
			invs = append(invs, sr)
		} else {
			obs.ExecErr = "selfref: " + err.Error()
			return
		}
	}
	// a request that is never answered must not hang the harness: it is reported as its own outcome
	type execResult struct {
		resp client.ExecutionResponse
		err  error
	}
	resc := make(chan execResult, 1)
	go func() {
		r, e := client.Execute(invs, conn)
		resc <- execResult{r, e}
	}()
	var resp client.ExecutionResponse
	select {
	case er := <-resc:
		resp, err = er.resp, er.err
	case <-time.After(hangTimeout()):
		hangs.Add(1)
		obs.ExecErr = "hang: the server did not answer in time"
		return
	}
	if err != nil {
		obs.ExecErr = err.Error()
		return
	}
	blocks := map[string][]byte{}
	for blk, err := range resp.Blocks() {
		if err == nil {
			blocks[blk.Link().String()] = blk.Bytes()
		}
	}
	seen := map[string]bool{}
	for _, n := range names {
		l := b.W.built[n].Dlg.Link()
		ro := rcptObs{Inv: l.String()}
		rl, found := resp.Get(l)
		if found && rl != nil {
			ro.Found = true
			ro.Rcpt = rl.String()
			if bb, ok := blocks[rl.String()]; ok {
				ro.Class, ro.Ran, ro.Issuer, ro.Decoded = decodeReceipt(bb)
				// the effects written in the receipt, whatever its class (compared with the model's rc_fx by Check_Server.v)
				ro.Forks, ro.Join = receiptEffects(bb)
				if ro.Class == "ok" {
					// DIRECT oracle: the effects the handler returned are the effects of the receipt (forks in order, the join)
					if caps := b.W.built[n].Dlg.Capabilities(); len(caps) == 1 {
						kind := baseKind(b.Handlers[caps[0].Can()])
						var wantForks []string
						wantJoin := ""
						wf, wj := kindEffects(kind)
						for _, l := range wf {
							wantForks = append(wantForks, l.String())
						}
						if wj != nil {
							wantJoin = wj.String()
						}
						if strings.Join(ro.Forks, ",") != strings.Join(wantForks, ",") || ro.Join != wantJoin {
							ro.FxBad = fmt.Sprintf("handler kind %s: receipt carries forks %v join %q, the handler returned forks %v join %q", kind, ro.Forks, ro.Join, wantForks, wantJoin)
						} else if kind == "okfxinv" {
							// effects given as invocations: their root blocks travel with the receipt
							for _, i := range []int{1, 2} {
								if _, ok := blocks[fxInvocation(i).Link().String()]; !ok {
									ro.FxBad = fmt.Sprintf("handler kind %s: the block of the invocation given as an effect (%s) is not in the response", kind, fxInvocation(i).Link())
								}
							}
						}
					}
				} else if ro.Decoded && (len(ro.Forks) > 0 || ro.Join != "") {
					ro.FxBad = fmt.Sprintf("a receipt of class %s carries effects: forks %v join %q", ro.Class, ro.Forks, ro.Join)
				}
			} else {
				ro.Class = "missing-block"
			}
			seen[rl.String()] = true
		}
		obs.Rcpts = append(obs.Rcpts, ro)
	}
	obs.NReceipts = len(seen)
}

// descriptorFor: the harness capability for a given ability (see world.go descriptor)
func (w *World) descriptorFor(can string, obs *Obs) validator.CapabilityParser[Cav] {
	saved := w.Can
	w.Can = can
	d := w.descriptor(obs)
	w.Can = saved
	return d
}

// ---------------------------------------------------------------------------
// rendering

func classCoq(c string) string {
	if c == "ok" {
		return "ROk"
	}
	return "(RErr " + hxs(c) + ")"
}

func (b *Batch) Coq(obs *BatchObs) string { return b.CoqFor(b.Invs, obs) }

// CoqFor renders one request (the given invocation names) of the batch.
func (b *Batch) CoqFor(names []string, obs *BatchObs) string {
	w := b.W
	// message blocks = union of the blocks of all invocations
	seen := map[int]bool{}
	var vis []string
	for _, n := range names {
		for blk, err := range w.built[n].Dlg.Blocks() {
			if err != nil {
				continue
			}
			id := w.lid(blk.Link())
			if !seen[id] {
				seen[id] = true
				vis = append(vis, fmt.Sprint(id))
			}
		}
	}
	var exec []string
	for _, n := range names {
		exec = append(exec, fmt.Sprint(w.lid(w.built[n].Dlg.Link())))
	}
	// the world part (tokens + context) through the wcase renderer with an empty observation
	wobs := &Obs{}
	w.Ctx.Now = int(ucan.Now())
	saveInv := w.Inv
	if len(names) > 0 {
		w.Inv = names[0]
	} else {
		w.Inv = w.order[0]
	}
	world := w.Coq(wobs)
	w.Inv = saveInv
	var hs, hfx []string
	cans := make([]string, 0, len(b.Handlers))
	for c := range b.Handlers {
		cans = append(cans, c)
	}
	sort.Strings(cans)
	for _, c := range cans {
		k := 0
		if b.Handlers[c] == "fail" || b.Handlers[c] == "badout" {
			k = 1
		}
		hs = append(hs, fmt.Sprintf("(%s, %d)", hxs(c), k))
		// what the model is told the handler returns with its value: the fork links in order and the join
		if forks, join := kindEffects(b.Handlers[c]); len(forks) > 0 || join != nil {
			var fs []string
			for _, l := range forks {
				fs = append(fs, l.String())
			}
			j := ""
			if join != nil {
				j = join.String()
			}
			hfx = append(hfx, fmt.Sprintf("(%s, %s)", hxs(c), w.coqEffects(fs, j)))
		}
	}
	var rc, ofx []string
	for _, r := range obs.Rcpts {
		rc = append(rc, fmt.Sprintf("(%d, %s, %s, %d, %s)", w.linkID[r.Inv], coqBool(r.Found), classCoq(r.Class), w.linkID[r.Ran], hxs(r.Issuer)))
		if r.Found && r.Decoded {
			ofx = append(ofx, fmt.Sprintf("(%d, %s)", w.linkID[r.Inv], w.coqEffects(r.Forks, r.Join)))
		}
	}
	var calls []string
	for _, c := range obs.Calls {
		calls = append(calls, fmt.Sprintf("(%s, %s)", hxs(c.HandlerOf), w.coqCap(c.Can, c.With, c.Nb)))
	}
	serveBytesHook(b, names) // servebytes.go: the same request once more, its BODY recorded (coq/Check_ServerBytes.v)
	return fmt.Sprintf("{| bc_world := %s;\n bc_vis := [%s];\n bc_exec := [%s];\n bc_handlers := [%s];\n bc_fx := [%s];\n bc_server := %s;\n ob_exec_err := %s;\n ob_rcpts := [%s];\n ob_fx := [%s];\n ob_calls := [%s];\n ob_nreceipts := %d |}",
		world, strings.Join(vis, "; "), strings.Join(exec, "; "), strings.Join(hs, "; "), strings.Join(hfx, "; "), coqDID(w.Ctx.Authority.DID),
		coqBool(obs.ExecErr != ""), strings.Join(rc, ";\n   "), strings.Join(ofx, ";\n   "), strings.Join(calls, ";\n   "), obs.NReceipts)
}

func writeBatchCases(dir, prefix string, cases []string, shards int) error {
	if err := flushServeBytes(dir, prefix); err != nil { // servebytes.go: sbytes_*.v next to the case files
		return err
	}
	per := (len(cases) + shards - 1) / shards
	if per == 0 {
		per = 1
	}
	for k := 0; k*per < len(cases); k++ {
		hi := (k + 1) * per
		if hi > len(cases) {
			hi = len(cases)
		}
		var sb strings.Builder
		sb.WriteString("From Ucanto Require Import Base Pattern Time Validator Check_Validator Server Check_Server.\nOpen Scope N_scope.\n")
		defs, body := internHex(coqList(cases[k*per : hi]))
		sb.WriteString(defs)
		fmt.Fprintf(&sb, "Definition cases : list bcase := %s.\n", body)
		sb.WriteString("Definition M := Eval vm_compute in check_batches cases.\nPrint M.\n")
		if err := writeFile(dir, fmt.Sprintf("%s_%02d.v", prefix, k), sb.String()); err != nil {
			return err
		}
	}
	return nil
}

// ---------------------------------------------------------------------------
// generation

// randomBatch: k invocations (chains with defects), several services, shared principals and context
func randomBatch(r *rand.Rand, id int, seed int64, maxInv int, dup bool) *Batch {
	cast := newCast(seed*2654435761 + int64(id))
	var service *Prin
	if id%4 == 3 {
		// the server is identified by a did:web whose key is wrapped: receipts must name THAT identity
		service = cast.Wrapped("service", "did:web:service.example", cast.Ed("servicekey"))
	} else {
		service = cast.Ed("service")
	}
	cw := &World{ID: id, Kind: "batch", Cast: cast, Can: "store/add", Ctx: baseCtx(service)}
	b := &Batch{ID: id, W: cw, Handlers: map[string]string{}}
	for _, a := range abilities {
		switch r.Intn(6) {
		case 0: // no handler for this ability
		case 5:
			b.Handlers[a] = "badout"
		case 1:
			b.Handlers[a] = "fail"
		case 2:
			b.Handlers[a] = []string{"okfx", "okjoin", "okfxjoin", "okfxinv"}[(id+len(a))%4]
		case 4:
			// a second rotation, so that a batch often has handlers returning different shapes of effects
			b.Handlers[a] = []string{"okjoin", "okfxinv", "ok", "okfxjoin", "okfx"}[(id/2+len(a))%5]
		default:
			b.Handlers[a] = "ok"
		}
	}
	n := 1 + r.Intn(maxInv)
	rsa := false
	// the server's can-issue policy: the default (self-issued), or an owner table under which a principal does NOT own
	// the resource named after it unless the table says so
	policy := "self"
	if id%3 == 2 {
		policy = "owners"
		cw.Ctx.SelfIssued = false
	}
	for i := 0; i < n; i++ {
		k := chainKnobs{MaxDepth: 3, Defects: []int{0, 0, 0, 1, 1}, Decoys: 1, RSA: true, Resolver: true, Caveats: true, Revocation: r.Intn(4) == 0, ForcePolicy: policy}
		w, info := chainWorldIn(r, id*100+i, seed, k, cast, fmt.Sprintf("i%d_", i))
		rsa = rsa || info.RSA
		cw.Specs = append(cw.Specs, w.Specs...)
		for k2, v := range w.Ctx.Owners {
			cw.Ctx.Owners[k2] = v
		}
		for k2, v := range w.Ctx.Revoked {
			cw.Ctx.Revoked[k2] = v
		}
		for k2, v := range w.Ctx.Resolvable {
			cw.Ctx.Resolvable[k2] = v
		}
		// capability-count defects on the invocation itself
		inv := w.Specs[len(w.Specs)-1]
		switch r.Intn(12) {
		case 0:
			inv.Caps = append(inv.Caps, CapSpec{Can: "store/list", With: inv.Caps[0].With, Nb: Cav{}})
		case 1:
			inv.Tamper = "nocaps"
		}
		b.Invs = append(b.Invs, inv.Name)
	}
	if r.Intn(3) == 0 {
		// an invocation issued by a principal WITHOUT a key (a did:mailto account signing with the blank signature) that
		// brings no session: refused like any other unauthorized invocation, with a receipt, next to the others
		ab := cast.Absentee(fmt.Sprintf("acct%d", id), fmt.Sprintf("did:mailto:example.com:user%d", id))
		far := int(ucan.Now()) + 1000000
		sp := &TokSpec{Name: "absentee_inv", Issuer: ab, Audience: service, Exp: &far,
			Caps: []CapSpec{{Can: "store/add", With: ab.DID.String(), Nb: Cav{}}}}
		cw.Specs = append(cw.Specs, sp)
		at := r.Intn(len(b.Invs) + 1)
		b.Invs = append(b.Invs[:at], append([]string{"absentee_inv"}, b.Invs[at:]...)...)
	}
	if r.Intn(6) == 0 {
		// an execute-list entry whose block is DAG-CBOR but not a UCAN, among well-formed invocations: it gets an error
		// receipt (no capabilities) and the others are answered as usual
		name := fmt.Sprintf("notucan%d", id)
		cw.Specs = append(cw.Specs, &TokSpec{Name: name, NotUCAN: true})
		at := r.Intn(len(b.Invs) + 1)
		b.Invs = append(b.Invs[:at], append([]string{name}, b.Invs[at:]...)...)
	}
	if r.Intn(4) == 0 {
		// two proofs for the invoked capability: a stranger's dead-end delegation of exactly that capability FIRST, the
		// owner's genuine one second — the handler runs
		far := int(ucan.Now()) + 1000000
		owner, invoker, stranger := cast.Ed("twin_owner"), cast.Ed("twin_invoker"), cast.Ed("twin_stranger")
		res := owner.DID.String()
		dead := &TokSpec{Name: "twin_dead", Issuer: stranger, Audience: invoker, Exp: &far, Caps: []CapSpec{{Can: "store/add", With: res, Nb: Cav{}}}}
		live := &TokSpec{Name: "twin_live", Issuer: owner, Audience: invoker, Exp: &far, Nonce: "live", Caps: []CapSpec{{Can: "store/add", With: res, Nb: Cav{}}}}
		iv := &TokSpec{Name: "twin_inv", Issuer: invoker, Audience: service, Exp: &far, Caps: []CapSpec{{Can: "store/add", With: res, Nb: Cav{}}},
			Proofs: []ProofRef{{Tok: "twin_dead", Inline: true}, {Tok: "twin_live", Inline: true}}}
		cw.Specs = append(cw.Specs, dead, live, iv)
		b.Invs = append(b.Invs, "twin_inv")
	}
	if r.Intn(4) == 0 {
		// a chain rooted at the SERVICE's own key for a resource the service does not own: service -> holder -> invoker.
		// Nothing the service issues roots a chain on somebody else's resource, on a default-option server either.
		far := int(ucan.Now()) + 1000000
		victim, holder, invoker := cast.Ed("svcroot_victim"), cast.Ed("svcroot_holder"), cast.Ed("svcroot_invoker")
		res := victim.DID.String()
		d1 := &TokSpec{Name: "svcroot_d1", Issuer: service, Audience: holder, Exp: &far, Caps: []CapSpec{{Can: "store/add", With: res, Nb: Cav{}}}}
		d2 := &TokSpec{Name: "svcroot_d2", Issuer: holder, Audience: invoker, Exp: &far, Caps: []CapSpec{{Can: "store/add", With: res, Nb: Cav{}}},
			Proofs: []ProofRef{{Tok: "svcroot_d1", Inline: true}}}
		iv := &TokSpec{Name: "svcroot_inv", Issuer: invoker, Audience: service, Exp: &far, Caps: []CapSpec{{Can: "store/add", With: res, Nb: Cav{}}},
			Proofs: []ProofRef{{Tok: "svcroot_d2", Inline: true}}}
		cw.Specs = append(cw.Specs, d1, d2, iv)
		b.Invs = append(b.Invs, "svcroot_inv")
	}
	if rsa {
		cw.Ctx.ParserKind = "ed+rsa"
	}
	if dup && n > 0 && r.Intn(3) == 0 {
		b.Invs = append(b.Invs, b.Invs[r.Intn(len(b.Invs))])
	}
	// invocations may share a proof: cite the first invocation's delegation from the second (as a decoy)
	return b
}


// baseKind strips the resource-reader suffix ("+didwith", "+didkey") of a handler kind
func baseKind(kind string) string {
	if i := strings.Index(kind, "+"); i >= 0 {
		return kind[:i]
	}
	return kind
}

func indexOf(b *Batch, inv string) int {
	for i, n := range b.Invs {
		if b.W.built[n].Dlg.Link().String() == inv {
			return i
		}
	}
	return -1
}
