package main

// gen_c07.go — C07: issued tokens verify, every alteration is detected.
// (a) byte level: the token root block written by the implementation vs Formats.token_bytes,
//     and decoding back; (b) behaviour: ucan.VerifySignature on fresh, transported and
//     altered tokens, against the issuer and against other principals.

import (
	"sync"
	"reflect"
	"encoding/base64"
	"fmt"
	"math/rand"
	"sort"
	"strings"
	"unicode/utf8"

	"github.com/ipfs/go-cid"
	ipldprime "github.com/ipld/go-ipld-prime"
	"github.com/ipld/go-ipld-prime/codec/dagcbor"
	"github.com/ipld/go-ipld-prime/datamodel"
	cidlink "github.com/ipld/go-ipld-prime/linking/cid"
	"github.com/ipld/go-ipld-prime/node/basicnode"
	"github.com/storacha/go-ucanto/core/dag/blockstore"
	"github.com/storacha/go-ucanto/core/delegation"
	"github.com/storacha/go-ucanto/core/ipld"
	"github.com/storacha/go-ucanto/core/ipld/block"
	"github.com/storacha/go-ucanto/core/ipld/codec/cbor"
	hsha "github.com/storacha/go-ucanto/core/ipld/hash/sha256"
	"github.com/storacha/go-ucanto/did"
	"github.com/storacha/go-ucanto/ucan"
	"github.com/storacha/go-ucanto/ucan/crypto/signature"
	pdm "github.com/storacha/go-ucanto/ucan/datamodel/payload"
	udm "github.com/storacha/go-ucanto/ucan/datamodel/ucan"
	"github.com/storacha/go-ucanto/ucan/formatter"
)

type nodeNb struct{ n datamodel.Node }

func (x nodeNb) ToIPLD() (datamodel.Node, error) { return x.n, nil }

type factB struct{ m map[string]datamodel.Node }

func (f factB) ToIPLD() (map[string]datamodel.Node, error) { return f.m, nil }

func coqOptStr(p *string) string {
	if p == nil {
		return "None"
	}
	return "(Some " + hxs(*p) + ")"
}

// utokenCoq renders a UCANModel as the Gallina record Formats.utoken
func utokenCoq(m *udm.UCANModel) string {
	var caps []string
	for _, c := range m.Att {
		caps = append(caps, fmt.Sprintf("(mkCapm %s %s %s)", hxs(c.With), hxs(c.Can), ipldToCoq(c.Nb)))
	}
	prf := "None"
	if m.Prf != nil {
		var ls []string
		for _, l := range m.Prf {
			ls = append(ls, hx([]byte(l.Binary())))
		}
		prf = "(Some [" + strings.Join(ls, "; ") + "])"
	}
	fct := "None"
	if m.Fct != nil {
		var fs []string
		for _, f := range m.Fct {
			var es []string
			for _, k := range f.Keys {
				es = append(es, fmt.Sprintf("(%s, %s)", hxs(k), ipldToCoq(f.Values[k])))
			}
			fs = append(fs, "["+strings.Join(es, "; ")+"]")
		}
		fct = "(Some [" + strings.Join(fs, "; ") + "])"
	}
	nbf := "None"
	if m.Nbf != nil {
		nbf = fmt.Sprintf("(Some (%d)%%Z)", *m.Nbf)
	}
	return fmt.Sprintf("(mkU %s %s %s %s [%s] %s %s %s %s %s)", hxs(m.V), hx(m.Iss), hx(m.Aud), hx(m.S),
		strings.Join(caps, "; "), prf, coqOptZ(m.Exp), fct, coqOptStr(m.Nnc), nbf)
}

// utokenCoqFromBytes renders the token root block (decoded generically, independent of the
// library's data model binding) as the Gallina record Formats.utoken
func utokenCoqFromBytes(b []byte) (string, error) {
	n, err := ipldprime.Decode(b, dagcbor.Decode)
	if err != nil {
		return "", err
	}
	str := func(k string) string {
		v, err := n.LookupByString(k)
		if err != nil {
			return ""
		}
		s, _ := v.AsString()
		return s
	}
	byt := func(k string) []byte {
		v, err := n.LookupByString(k)
		if err != nil {
			return nil
		}
		s, _ := v.AsBytes()
		return s
	}
	var caps []string
	if att, err := n.LookupByString("att"); err == nil {
		for it := att.ListIterator(); !it.Done(); {
			_, c, _ := it.Next()
			w, _ := c.LookupByString("with")
			cn, _ := c.LookupByString("can")
			nb, _ := c.LookupByString("nb")
			ws, _ := w.AsString()
			cs, _ := cn.AsString()
			caps = append(caps, fmt.Sprintf("(mkCapm %s %s %s)", hxs(ws), hxs(cs), ipldToCoq(nb)))
		}
	}
	prf := "None"
	if pv, err := n.LookupByString("prf"); err == nil {
		var ls []string
		for it := pv.ListIterator(); !it.Done(); {
			_, l, _ := it.Next()
			lk, _ := l.AsLink()
			ls = append(ls, hx([]byte(lk.Binary())))
		}
		prf = "(Some [" + strings.Join(ls, "; ") + "])"
	}
	exp := "None"
	if ev, err := n.LookupByString("exp"); err == nil && !ev.IsNull() {
		i, _ := ev.AsInt()
		exp = fmt.Sprintf("(Some (%d)%%Z)", i)
	}
	fct := "None"
	if fv, err := n.LookupByString("fct"); err == nil {
		var fs []string
		for it := fv.ListIterator(); !it.Done(); {
			_, f, _ := it.Next()
			var es []string
			for mi := f.MapIterator(); !mi.Done(); {
				k, v, _ := mi.Next()
				ks, _ := k.AsString()
				es = append(es, fmt.Sprintf("(%s, %s)", hxs(ks), ipldToCoq(v)))
			}
			fs = append(fs, "["+strings.Join(es, "; ")+"]")
		}
		fct = "(Some [" + strings.Join(fs, "; ") + "])"
	}
	nnc := "None"
	if nv, err := n.LookupByString("nnc"); err == nil {
		s, _ := nv.AsString()
		nnc = "(Some " + hxs(s) + ")"
	}
	nbf := "None"
	if nv, err := n.LookupByString("nbf"); err == nil {
		i, _ := nv.AsInt()
		nbf = fmt.Sprintf("(Some (%d)%%Z)", i)
	}
	return fmt.Sprintf("(mkU %s %s %s %s [%s] %s %s %s %s %s)", hxs(str("v")), hx(byt("iss")), hx(byt("aud")), hx(byt("s")),
		strings.Join(caps, "; "), prf, exp, fct, nnc, nbf), nil
}

type c07Alteration struct {
	name  string
	apply func(m *udm.UCANModel, other *Prin) bool // false: not applicable
}

// alterations that are dag-json collisions -> KNOWN_FINDINGS key reported when the altered token still verifies
var c07CollisionKeys = map[string]string{"nb-bytes-to-slash-map": "json-slash-bytes", "nb-link-to-slash-map": "json-slash-link",
	"nb-int-to-integral-float": "json-integral-float", "string-invalid-utf8-swap": "json-invalid-utf8", "aud-invalid-utf8-swap": "json-invalid-utf8-did", "aud-undecodable-swap": "undecodable-audience"}

// signPayloadOf rebuilds the signed string exactly the way ucan.VerifySignature does
func signPayloadOf(u ucan.View) (alg string, payload string, err error) {
	alg, err = signature.CodeName(u.Signature().Code())
	if err != nil {
		return "", "", err
	}
	var prfstrs []string
	for _, link := range u.Proofs() {
		prfstrs = append(prfstrs, link.String())
	}
	p := pdm.PayloadModel{Iss: u.Issuer().DID().String(), Aud: u.Audience().DID().String(), Att: u.Model().Att, Prf: prfstrs,
		Exp: u.Expiration(), Fct: u.Model().Fct, Nnc: u.Model().Nnc, Nbf: u.Model().Nbf}
	payload, err = formatSignPayload(p, u.Version(), alg)
	return alg, payload, err
}

// issueUnguarded builds the token the way ucan.Issue did before encodeSignaturePayload got its guard
// (fixes/C07_signable.diff): the formatter's string signed as is.  Used when Issue refuses a payload, to
// observe that VerifySignature refuses it too (and, on a tree without the guard, nothing changes).
func issueUnguarded(iss ucan.Signer, aud ucan.Principal, caps []ucan.Capability[ucan.CaveatBuilder], exp *int, nbf int, nnc string,
	facts []factB, prf []ipld.Link) (*udm.UCANModel, error) {
	var capsmdl []udm.CapabilityModel
	for _, c := range caps {
		nb, err := c.Nb().ToIPLD()
		if err != nil {
			return nil, err
		}
		capsmdl = append(capsmdl, udm.CapabilityModel{With: c.With(), Can: c.Can(), Nb: nb})
	}
	var prfstrs []string
	for _, l := range prf {
		prfstrs = append(prfstrs, l.String())
	}
	var fctsmdl []udm.FactModel
	for _, f := range facts {
		var ks []string
		for k := range f.m {
			ks = append(ks, k)
		}
		fctsmdl = append(fctsmdl, udm.FactModel{Keys: ks, Values: f.m})
	}
	payload := pdm.PayloadModel{Iss: iss.DID().String(), Aud: aud.DID().String(), Att: capsmdl, Prf: prfstrs, Exp: exp, Fct: fctsmdl}
	model := udm.UCANModel{V: "0.9.1", Iss: iss.DID().Bytes(), Aud: aud.DID().Bytes(), Att: capsmdl, Prf: prf, Exp: exp, Fct: fctsmdl}
	if nnc != "" {
		payload.Nnc, model.Nnc = &nnc, &nnc
	}
	if nbf != 0 {
		payload.Nbf, model.Nbf = &nbf, &nbf
	}
	str, err := formatSignPayload(payload, "0.9.1", iss.SignatureAlgorithm())
	if err != nil {
		return nil, err
	}
	model.S = iss.Sign([]byte(str)).Bytes()
	return &model, nil
}

// sanitizeNode rebuilds n with every string and map key made valid UTF-8 (entries whose keys collide are dropped)
func sanitizeNode(n datamodel.Node) datamodel.Node {
	switch n.Kind() {
	case datamodel.Kind_String:
		s, _ := n.AsString()
		return basicnode.NewString(strings.ToValidUTF8(s, "?"))
	case datamodel.Kind_List:
		nb := basicnode.Prototype.List.NewBuilder()
		la, _ := nb.BeginList(n.Length())
		for it := n.ListIterator(); !it.Done(); {
			_, v, _ := it.Next()
			la.AssembleValue().AssignNode(sanitizeNode(v))
		}
		la.Finish()
		return nb.Build()
	case datamodel.Kind_Map:
		seen := map[string]bool{}
		nb := basicnode.Prototype.Map.NewBuilder()
		ma, _ := nb.BeginMap(n.Length())
		for it := n.MapIterator(); !it.Done(); {
			k, v, _ := it.Next()
			ks, _ := k.AsString()
			ks = strings.ToValidUTF8(ks, "?")
			if seen[ks] {
				continue
			}
			seen[ks] = true
			ma.AssembleKey().AssignString(ks)
			ma.AssembleValue().AssignNode(sanitizeNode(v))
		}
		ma.Finish()
		return nb.Build()
	}
	return n
}

// rewriteFirst rebuilds n with the first node (depth first) for which f returns a replacement replaced
func rewriteFirst(n datamodel.Node, f func(datamodel.Node) (datamodel.Node, bool)) (datamodel.Node, bool) {
	if r, ok := f(n); ok {
		return r, true
	}
	switch n.Kind() {
	case datamodel.Kind_List:
		done := false
		nb := basicnode.Prototype.List.NewBuilder()
		la, _ := nb.BeginList(n.Length())
		for it := n.ListIterator(); !it.Done(); {
			_, v, _ := it.Next()
			if !done {
				if r, ok := rewriteFirst(v, f); ok {
					v, done = r, true
				}
			}
			la.AssembleValue().AssignNode(v)
		}
		la.Finish()
		return nb.Build(), done
	case datamodel.Kind_Map:
		done := false
		nb := basicnode.Prototype.Map.NewBuilder()
		ma, _ := nb.BeginMap(n.Length())
		for it := n.MapIterator(); !it.Done(); {
			k, v, _ := it.Next()
			if !done {
				if r, ok := rewriteFirst(v, f); ok {
					v, done = r, true
				}
			}
			ks, _ := k.AsString()
			ma.AssembleKey().AssignString(ks)
			ma.AssembleValue().AssignNode(v)
		}
		ma.Finish()
		return nb.Build(), done
	}
	return n, false
}

func mapOf(key string, v datamodel.Node) datamodel.Node {
	nb := basicnode.Prototype.Map.NewBuilder()
	ma, _ := nb.BeginMap(1)
	ma.AssembleKey().AssignString(key)
	ma.AssembleValue().AssignNode(v)
	ma.Finish()
	return nb.Build()
}

// swapInvalidByte replaces the first byte that utf8 decoding rejects by another byte that is invalid everywhere
func swapInvalidByte(s string) (string, bool) {
	for i := 0; i < len(s); {
		c, size := utf8.DecodeRuneInString(s[i:])
		if c == utf8.RuneError && size == 1 {
			b := []byte(s)
			if b[i] == 0xff {
				b[i] = 0xfe
			} else {
				b[i] = 0xff
			}
			return string(b), true
		}
		i += size
	}
	return s, false
}

// alterNb applies f to the first matching node of the caveats of any capability
func alterNb(m *udm.UCANModel, f func(datamodel.Node) (datamodel.Node, bool)) bool {
	att := append([]udm.CapabilityModel{}, m.Att...)
	for i := range att {
		if att[i].Nb == nil {
			continue
		}
		if nb, ok := rewriteFirst(att[i].Nb, f); ok {
			att[i].Nb = nb
			m.Att = att
			return true
		}
	}
	return false
}

// the dag-json collisions: a different token value, the same signed bytes
func c07CollisionAlterations() []c07Alteration {
	return []c07Alteration{
		{"nb-bytes-to-slash-map", func(m *udm.UCANModel, o *Prin) bool {
			return alterNb(m, func(n datamodel.Node) (datamodel.Node, bool) {
				if n.Kind() != datamodel.Kind_Bytes {
					return nil, false
				}
				b, _ := n.AsBytes()
				return mapOf("/", mapOf("bytes", basicnode.NewString(base64.RawStdEncoding.EncodeToString(b)))), true
			})
		}},
		{"nb-link-to-slash-map", func(m *udm.UCANModel, o *Prin) bool {
			return alterNb(m, func(n datamodel.Node) (datamodel.Node, bool) {
				if n.Kind() != datamodel.Kind_Link {
					return nil, false
				}
				l, _ := n.AsLink()
				return mapOf("/", basicnode.NewString(l.String())), true
			})
		}},
		{"nb-int-to-integral-float", func(m *udm.UCANModel, o *Prin) bool {
			return alterNb(m, func(n datamodel.Node) (datamodel.Node, bool) {
				if n.Kind() != datamodel.Kind_Int {
					return nil, false
				}
				if _, isU := n.(datamodel.UintNode); isU {
					return nil, false
				}
				v, err := n.AsInt()
				if err != nil || v >= 1<<53 || v <= -(1<<53) {
					return nil, false
				}
				return basicnode.NewFloat(float64(v)), true
			})
		}},
		{"string-invalid-utf8-swap", func(m *udm.UCANModel, o *Prin) bool {
			return alterNb(m, func(n datamodel.Node) (datamodel.Node, bool) {
				if n.Kind() != datamodel.Kind_String {
					return nil, false
				}
				s, _ := n.AsString()
				if t, ok := swapInvalidByte(s); ok {
					return basicnode.NewString(t), true
				}
				return nil, false
			})
		}},
		{"aud-undecodable-swap", func(m *udm.UCANModel, o *Prin) bool {
			// a token whose audience bytes are no DID at all (issued to did.Undef) signs "aud":"": any other undecodable bytes print the same
			if _, err := did.Decode(m.Aud); err == nil {
				return false
			}
			m.Aud = []byte{0x00, 0x01}
			return true
		}},
		{"aud-invalid-utf8-swap", func(m *udm.UCANModel, o *Prin) bool {
			d, err := did.Decode(m.Aud)
			if err != nil || strings.HasPrefix(d.String(), "did:key:") || len(m.Aud) < 2 {
				return false
			}
			t, ok := swapInvalidByte(string(m.Aud[2:]))
			if !ok {
				return false
			}
			m.Aud = append(append([]byte{}, m.Aud[:2]...), []byte(t)...)
			return true
		}},
	}
}

func c07Alterations() []c07Alteration {
	return []c07Alteration{
		{"iss", func(m *udm.UCANModel, o *Prin) bool {
			if string(m.Iss) == string(o.DID.Bytes()) {
				return false
			}
			m.Iss = o.DID.Bytes()
			return true
		}},
		{"aud", func(m *udm.UCANModel, o *Prin) bool {
			if string(m.Aud) == string(o.DID.Bytes()) {
				m.Aud = append([]byte{}, m.Aud...)
				m.Aud[len(m.Aud)-1] ^= 1
				return true
			}
			m.Aud = o.DID.Bytes()
			return true
		}},
		{"cap-with", func(m *udm.UCANModel, o *Prin) bool {
			att := append([]udm.CapabilityModel{}, m.Att...)
			att[0].With = att[0].With + "x"
			m.Att = att
			return true
		}},
		{"cap-can", func(m *udm.UCANModel, o *Prin) bool {
			att := append([]udm.CapabilityModel{}, m.Att...)
			att[len(att)-1].Can = "other/ability"
			m.Att = att
			return true
		}},
		{"cap-nb", func(m *udm.UCANModel, o *Prin) bool {
			att := append([]udm.CapabilityModel{}, m.Att...)
			att[0].Nb = basicnode.NewString("altered")
			m.Att = att
			return true
		}},
		{"cap-dropped", func(m *udm.UCANModel, o *Prin) bool {
			if len(m.Att) < 2 {
				return false
			}
			m.Att = m.Att[1:]
			return true
		}},
		{"prf", func(m *udm.UCANModel, o *Prin) bool {
			m.Prf = append(append([]ipld.Link{}, m.Prf...), fakeLink(55))
			return true
		}},
		{"exp", func(m *udm.UCANModel, o *Prin) bool {
			e := 4102444801
			if m.Exp != nil {
				e = *m.Exp + 1
			}
			m.Exp = &e
			return true
		}},
		{"exp-removed", func(m *udm.UCANModel, o *Prin) bool {
			if m.Exp == nil {
				return false
			}
			m.Exp = nil
			return true
		}},
		{"nbf", func(m *udm.UCANModel, o *Prin) bool {
			n := 5
			if m.Nbf != nil {
				n = *m.Nbf + 1
			}
			m.Nbf = &n
			return true
		}},
		{"nbf-removed", func(m *udm.UCANModel, o *Prin) bool {
			if m.Nbf == nil {
				return false
			}
			m.Nbf = nil
			return true
		}},
		{"nnc", func(m *udm.UCANModel, o *Prin) bool {
			n := "altered"
			if m.Nnc != nil {
				n = *m.Nnc + "x"
			}
			m.Nnc = &n
			return true
		}},
		{"nnc-removed", func(m *udm.UCANModel, o *Prin) bool {
			if m.Nnc == nil {
				return false
			}
			m.Nnc = nil
			return true
		}},
		{"fct", func(m *udm.UCANModel, o *Prin) bool {
			m.Fct = append(append([]udm.FactModel{}, m.Fct...), udm.FactModel{Keys: []string{"k"}, Values: map[string]datamodel.Node{"k": basicnode.NewInt(1)}})
			return true
		}},
		{"fct-value", func(m *udm.UCANModel, o *Prin) bool {
			if len(m.Fct) == 0 || len(m.Fct[0].Keys) == 0 {
				return false
			}
			f := udm.FactModel{Keys: m.Fct[0].Keys, Values: map[string]datamodel.Node{}}
			for k, v := range m.Fct[0].Values {
				f.Values[k] = v
			}
			f.Values[f.Keys[0]] = basicnode.NewString("altered")
			m.Fct = append([]udm.FactModel{f}, m.Fct[1:]...)
			return true
		}},
		// presence-only alterations: an absent optional field becomes present with its zero value
		{"nbf-present-zero", func(m *udm.UCANModel, o *Prin) bool {
			if m.Nbf != nil {
				return false
			}
			z := 0
			m.Nbf = &z
			return true
		}},
		{"nnc-present-empty", func(m *udm.UCANModel, o *Prin) bool {
			if m.Nnc != nil {
				return false
			}
			e := ""
			m.Nnc = &e
			return true
		}},
		// alias encodings of the SAME principal: the multiformat bytes replaced by the UTF-8 text of the DID
		{"iss-as-text", func(m *udm.UCANModel, o *Prin) bool {
			d, err := did.Decode(m.Iss)
			if err != nil {
				return false
			}
			m.Iss = []byte(d.String())
			return true
		}},
		{"aud-as-text", func(m *udm.UCANModel, o *Prin) bool {
			d, err := did.Decode(m.Aud)
			if err != nil {
				return false
			}
			m.Aud = []byte(d.String())
			return true
		}},
		{"version", func(m *udm.UCANModel, o *Prin) bool { m.V = "0.9.2"; return true }},
		// the version blanked, cut or extended (an accessor that "defaults" the version would hide these)
		{"version-empty", func(m *udm.UCANModel, o *Prin) bool { m.V = ""; return true }},
		{"version-prefix", func(m *udm.UCANModel, o *Prin) bool {
			if len(m.V) < 2 {
				return false
			}
			m.V = m.V[:len(m.V)-2]
			return true
		}},
		{"version-suffix", func(m *udm.UCANModel, o *Prin) bool { m.V = m.V + ".0"; return true }},
		{"sig-flip", func(m *udm.UCANModel, o *Prin) bool {
			s := append([]byte{}, m.S...)
			s[len(s)-1] ^= 1
			m.S = s
			return true
		}},
		{"sig-size-varint", func(m *udm.UCANModel, o *Prin) bool {
			// the declared size of the raw signature (the varint after the algorithm code)
			s := append([]byte{}, m.S...)
			cl := 3
			if s[0] != 0xed {
				cl = 4
			}
			s[cl] ^= 0x01
			m.S = s
			return true
		}},
		{"sig-appended", func(m *udm.UCANModel, o *Prin) bool { m.S = append(append([]byte{}, m.S...), 0); return true }},
		// the same (code, size, raw) framed with NON-MINIMAL varints: other signature bytes, other CID
		{"sig-size-varint-padded", func(m *udm.UCANModel, o *Prin) bool {
			sv := signature.Decode(m.S)
			sz := uvarintBytes(uint64(len(sv.Raw())))
			sz[len(sz)-1] |= 0x80
			m.S = cat(uvarintBytes(sv.Code()), append(sz, 0x00), sv.Raw())
			return true
		}},
		{"sig-code-varint-padded", func(m *udm.UCANModel, o *Prin) bool {
			sv := signature.Decode(m.S)
			cd := uvarintBytes(sv.Code())
			cd[len(cd)-1] |= 0x80
			m.S = cat(append(cd, 0x00), uvarintBytes(uint64(len(sv.Raw()))), sv.Raw())
			return true
		}},
		{"sig-code", func(m *udm.UCANModel, o *Prin) bool {
			// re-tag the signature with the other algorithm's code
			s := append([]byte{}, m.S...)
			if s[0] == 0xed { // EdDSA 0xd0ed -> RS256 0xd01205
				m.S = append([]byte{0x85, 0xa4, 0xc0, 0x06}, s[3:]...)
			} else {
				m.S = append([]byte{0xed, 0xa1, 0x03}, s[4:]...)
			}
			return true
		}},
	}
}

// writeSignShards writes cases_<tag>_sign_NN.v: check_sign_memo (proved equal to check_sign) computes the DID
// string of each distinct principal of the shard once
func writeSignShards(dir, tag string, cases []string, dids [][][]byte, shards int) error {
	return writeSignShardsFn(dir, tag, "check_sign_memo", cases, dids, shards)
}

// writeSignShardsFn: fn is check_sign_memo (formatter.FormatSignPayload) or check_input_memo (with the guard of
// encodeSignaturePayload: None when Issue / VerifySignature returned its error)
func writeSignShardsFn(dir, tag, fn string, cases []string, dids [][][]byte, shards int) error {
	if len(cases) == 0 {
		return nil
	}
	per := (len(cases) + shards - 1) / shards
	for k := 0; k*per < len(cases); k++ {
		hi := (k + 1) * per
		if hi > len(cases) {
			hi = len(cases)
		}
		seen := map[string]bool{}
		var ds []string
		for _, pair := range dids[k*per : hi] {
			for _, b := range pair {
				if !seen[string(b)] {
					seen[string(b)] = true
					ds = append(ds, hx(b))
				}
			}
		}
		var sb strings.Builder
		sb.WriteString(jsonCaseHeader)
		defs, body := internPk("(" + coqList(ds) + ", " + coqList(cases[k*per:hi]) + ")")
		sb.WriteString(defs)
		fmt.Fprintf(&sb, "Definition input : list bstr * list (N * bstr * utoken * option bstr) := %s.\n", body)
		fmt.Fprintf(&sb, "Definition M := Eval vm_compute in %s (fst input) (snd input).\nPrint M.\n", fn)
		if err := writeFile(dir, fmt.Sprintf("cases_%s_sign_%02d.v", tag, k), sb.String()); err != nil {
			return err
		}
	}
	return nil
}

func reDecode(m *udm.UCANModel) (delegation.Delegation, []byte, error) {
	rt, err := block.Encode(m, udm.Type(), cbor.Codec, hsha.Hasher)
	if err != nil {
		return nil, nil, err
	}
	br, _ := blockstore.NewBlockReader(blockstore.WithBlocks([]ipld.Block{rt}))
	d, err := delegation.NewDelegation(rt, br)
	return d, rt.Bytes(), err
}

func init() {
	gens["C07"] = func(o genOpts) error {
		n := 400
		if o.tier == "thorough" {
			n = 12000
		}
		r := rand.New(rand.NewSource(o.seed))
		cast := newCast(o.seed * 11)
		keys := []*Prin{cast.Ed("a"), cast.Ed("b"), cast.RSA("r0", 0), cast.RSA("r1", 1)}
		wrapped := cast.Wrapped("w", "did:web:wrapped.example", cast.Ed("wk"))
		issuers := []*Prin{keys[0], keys[1], keys[2], wrapped}
		cst := newCborStats()
		var cases, signCases []string
		var signDids [][][]byte
		var direct []map[string]any
		collHist := map[string]int{}
		optHist := map[string]int{}
		altHist := map[string]int{}
		nverify, nalter, nrefused := 0, 0, 0
		var samples []any
		var undecodable []map[string]any
		for i := 0; i < n; i++ {
			iss := issuers[i%len(issuers)]
			aud := keys[r.Intn(len(keys))]
			var audP ucan.Principal = aud.DID
			if i%16 == 7 { // the undefined DID as audience
				audP = did.Undef
			} else if i%5 == 3 { // a generic (non-key) audience DID whose text is not valid UTF-8
				if wd, err := did.Decode(append([]byte{0x9d, 0x1a}, []byte(fmt.Sprintf("web:ex\xffample%d.com", r.Intn(10)))...)); err == nil {
					audP = wd
				}
			}
			// option subset: bit0 exp explicit, bit1 no expiration, bit2 nbf, bit3 nonce, bit4 facts, bit5 proofs
			mask := i % 64
			if i >= 256 {
				mask = r.Intn(64)
			}
			var opts []delegation.Option
			var rawExp *int
			rawNbf, rawNnc := 0, ""
			var rawFacts []factB
			var rawPrf []ipld.Link
			if mask&2 != 0 {
				opts = append(opts, delegation.WithNoExpiration())
			} else if mask&1 != 0 {
				e := 4000000000 + r.Intn(1000)
				rawExp = &e
				opts = append(opts, delegation.WithExpiration(e))
			} else {
				e := int(ucan.Now()) + 1000 // the default (now+30) is the only non-deterministic input
				rawExp = &e
				opts = append(opts, delegation.WithExpiration(e))
			}
			if mask&4 != 0 {
				rawNbf = 1 + r.Intn(1000)
				opts = append(opts, delegation.WithNotBefore(rawNbf))
			}
			if mask&8 != 0 {
				rawNnc = fmt.Sprintf("nonce-%d", r.Intn(1000))
				opts = append(opts, delegation.WithNonce(rawNnc))
			}
			if mask&16 == 0 && i%9 == 4 {
				// options given with DEGENERATE values: an empty (but non-nil) list of facts, an empty proof list
				opts = append(opts, delegation.WithFacts([]ucan.FactBuilder{}), delegation.WithProof())
			}
			if mask&16 != 0 {
				var facts []ucan.FactBuilder
				for f := 1 + r.Intn(2); f > 0; f-- {
					m := map[string]datamodel.Node{}
					for _, k := range randKeys(r, 1+r.Intn(3), cst) {
						nd, _ := randNode(r, 2, cst)
						if nodeHasFloat(nd) || nd.Kind() == datamodel.Kind_Null {
							nd = basicnode.NewInt(7)
						}
						if i%4 != 2 { // three tokens in four carry only valid UTF-8 (the others are mostly refused by Issue)
							k, nd = strings.ToValidUTF8(k, "?"), sanitizeNode(nd)
						}
						m[k] = nd
					}
					facts = append(facts, factB{m})
					rawFacts = append(rawFacts, factB{m})
				}
				opts = append(opts, delegation.WithFacts(facts))
			}
			if mask&32 != 0 {
				var prfs []delegation.Proof
				for p := 1 + r.Intn(3); p > 0; p-- {
					l := cidlink.Link{Cid: randCid(r, cst)}
					rawPrf = append(rawPrf, l)
					prfs = append(prfs, delegation.FromLink(l))
				}
				if r.Intn(3) == 0 {
					// the same proof cited twice (two proof sets concatenated by the issuer): the list is signed as given
					l := rawPrf[r.Intn(len(rawPrf))]
					rawPrf = append(rawPrf, l)
					prfs = append(prfs, delegation.FromLink(l))
				}
				opts = append(opts, delegation.WithProof(prfs...))
			}
			var caps []ucan.Capability[ucan.CaveatBuilder]
			for c := 1 + r.Intn(3); c > 0; c-- {
				nd, _ := randNode(r, 3, cst)
				if nodeHasFloat(nd) || nd.Kind() == datamodel.Kind_Null {
					nd = basicnode.NewString("no floats / bare null as caveats")
				}
				if i%4 != 2 {
					nd = sanitizeNode(nd)
				}
				if i%3 == 1 && len(caps) == 0 { // caveats holding bytes, a link, an integer and (one time in four) a string with an invalid UTF-8 byte
					nb := basicnode.Prototype.Map.NewBuilder()
					ma, _ := nb.BeginMap(5)
					for _, e := range []struct {
						k string
						v datamodel.Node
					}{{"blob", basicnode.NewBytes(randBytes(r, r.Intn(6)))}, {"ref", basicnode.NewLink(cidlink.Link{Cid: randCid(r, cst)})},
						{"n", basicnode.NewInt(int64(r.Intn(1000) - 500))}, {"s", basicnode.NewString("caf\xc3" + pick(r, []string{"\xa9", "\xa9", "\xa9", "", "x", "\xa9\xff"}))}, {"r", nd}} {
						ma.AssembleKey().AssignString(e.k)
						ma.AssembleValue().AssignNode(e.v)
					}
					ma.Finish()
					nd = nb.Build()
				}
				if i%7 == 5 && len(caps) == 0 {
					// "/" as an ordinary map key, next to the reserved DAG-JSON shapes: with other keys (signable), alone with a
					// non-string value (signable), alone with a string / {"bytes": string} (refused)
					mapOfKV := func(kv ...any) datamodel.Node {
						nb := basicnode.Prototype.Map.NewBuilder()
						ma, _ := nb.BeginMap(int64(len(kv) / 2))
						for j := 0; j+1 < len(kv); j += 2 {
							ma.AssembleKey().AssignString(kv[j].(string))
							ma.AssembleValue().AssignNode(kv[j+1].(datamodel.Node))
						}
						ma.Finish()
						return nb.Build()
					}
					nd = []datamodel.Node{
						mapOfKV("routes", mapOfKV("/", basicnode.NewString("index.html"), "/about", basicnode.NewString("about.html"))),
						mapOfKV("/", basicnode.NewInt(int64(i))),
						mapOfKV("x", mapOfKV("/", mapOfKV("bytes", basicnode.NewInt(7)))),
						mapOfKV("/", mapOfKV("bytes", basicnode.NewString("AQID"), "more", basicnode.NewBool(true))),
						mapOfKV("x", mapOfKV("/", basicnode.NewString("not-a-cid"))),
						mapOfKV("/", mapOfKV("bytes", basicnode.NewString("AQID"))),
					}[(i/7)%6]
				}
				caps = append(caps, ucan.NewCapability[ucan.CaveatBuilder](pick(r, abilities), pick(r, []string{iss.DID.String(), "ucan:*", "https://example.com/ü"}), nodeNb{nd}))
			}
			d, err := delegation.Delegate(iss.Signer, audP, caps, opts...)
			refused := false
			if err != nil {
				// Issue refused the payload: checkSignable (invalid UTF-8, reserved slash map, undefined audience) or the dag-json
				// payload cannot be built (an unsigned caveat integer above int64).  Build the token without the guard.
				um, uerr := issueUnguarded(iss.Signer, audP, caps, rawExp, rawNbf, rawNnc, rawFacts, rawPrf)
				if uerr != nil {
					optHist["unissuable"]++
					continue
				}
				ud, _, derr := reDecode(um)
				if derr != nil {
					optHist["unissuable"]++
					continue
				}
				d, refused = ud, true
				nrefused++
			}
			label := fmt.Sprintf("mask=%06b issuer=%s caps=%d", mask, iss.Name, len(caps))
			if refused {
				label += " refused-by-Issue"
			}
			optHist[fmt.Sprintf("%06b", mask)]++
			model := d.Data().Model()
			if model.V == "" {
				// the library could not decode the root block it just wrote
				kinds := ""
				for _, c := range caps {
					nd, _ := c.Nb().ToIPLD()
					kinds += nd.Kind().String() + ","
				}
				undecodable = append(undecodable, map[string]any{"token": i, "label": label, "nb_kinds": kinds, "mask": mask})
				continue
			}
			// (a) bytes
			ut, uerr := utokenCoqFromBytes(d.Root().Bytes())
			if uerr != nil {
				return uerr
			}
			cases = append(cases, fmt.Sprintf("(%d, %s, %s)", i, ut, hx(d.Root().Bytes())))
			// (b) behaviour: fresh
			nverify++
			okv, verr := ucan.VerifySignature(d.Data(), iss.Real)
			switch {
			case refused && (okv || verr == nil):
				direct = append(direct, map[string]any{"token": i, "label": label, "key": "issue-guard-mismatch",
					"what": "Issue refused the payload but VerifySignature accepts a token carrying it", "root_hex": fmt.Sprintf("%x", d.Root().Bytes())})
			case !refused && (verr != nil || !okv):
				direct = append(direct, map[string]any{"token": i, "label": label, "what": "freshly issued token does not verify against its issuer", "err": fmt.Sprint(verr)})
			}
			// (a') the exact bytes handed to Sign / Verify, or None when encodeSignaturePayload returned an error
			// (observed through VerifySignature: its only other error is an unknown signature code)
			alg, sp, sperr := signPayloadOf(d.Data())
			signCases = append(signCases, fmt.Sprintf("(%d, %s, %s, %s)", i, hxs(alg), ut, coqOptBytes([]byte(sp), sperr == nil && verr == nil)))
			signDids = append(signDids, [][]byte{model.Iss, model.Aud})
			// transported: re-decode from the root block bytes
			td, _, err := reDecode(model)
			if err == nil && !refused {
				okv, verr = ucan.VerifySignature(td.Data(), iss.Real)
				if verr != nil || !okv {
					direct = append(direct, map[string]any{"token": i, "label": label, "what": "token does not verify after encode/decode", "err": fmt.Sprint(verr)})
				}
			}
			// other principals
			for _, k := range keys {
				if k.DID == iss.DID || k.KeyID == iss.KeyID {
					continue
				}
				nverify++
				if okv, _ := ucan.VerifySignature(d.Data(), k.Real); okv {
					direct = append(direct, map[string]any{"token": i, "label": label, "what": "token verifies against another principal " + k.Name})
				}
			}
			// single-field alterations
			alts := append(c07Alterations(), c07CollisionAlterations()...)
			for _, a := range alts {
				akey := c07CollisionKeys[a.name]
				m := *model
				if !a.apply(&m, keys[(i+1)%2]) {
					continue
				}
				ad, _, err := reDecode(&m)
				if err != nil {
					continue
				}
				if string(ad.Root().Bytes()) == string(d.Root().Bytes()) {
					continue // not an alteration of the token
				}
				nalter++
				altHist[a.name]++
				okv, averr := ucan.VerifySignature(ad.Data(), iss.Real)
				if okv {
					e := map[string]any{"token": i, "label": label, "alteration": a.name,
						"what": "token still verifies after altering " + a.name, "root_hex": fmt.Sprintf("%x", ad.Root().Bytes()),
						"original_root_hex": fmt.Sprintf("%x", d.Root().Bytes())}
					if akey != "" {
						e["key"] = akey
						collHist[akey]++
						_, sp0, _ := signPayloadOf(d.Data())
						_, sp1, _ := signPayloadOf(ad.Data())
						e["same_signed_bytes"] = sp0 == sp1
					}
					direct = append(direct, e)
				}
				// the model must predict the signed bytes of the altered token as well (floats are outside the model)
				if akey != "" && akey != "json-integral-float" {
					if aut, err := utokenCoqFromBytes(ad.Root().Bytes()); err == nil {
						alg, sp, sperr := signPayloadOf(ad.Data())
						signCases = append(signCases, fmt.Sprintf("(%d, %s, %s, %s)", 1000000+i, hxs(alg), aut, coqOptBytes([]byte(sp), sperr == nil && averr == nil)))
						signDids = append(signDids, [][]byte{m.Iss, m.Aud})
					}
				}
			}
			if len(samples) < 6 {
				samples = append(samples, map[string]any{"token": i, "label": label, "root_block_bytes": len(d.Root().Bytes()), "cid": d.Link().String()})
			}
		}
		// case files
		shards := 16
		per := (len(cases) + shards - 1) / shards
		for k := 0; k*per < len(cases); k++ {
			hi := (k + 1) * per
			if hi > len(cases) {
				hi = len(cases)
			}
			var sb strings.Builder
			sb.WriteString("From Ucanto Require Import Base Ipld Cbor Formats Check_Formats.\nOpen Scope N_scope.\n")
			defs, body := internHex(coqList(cases[k*per : hi]))
			sb.WriteString(defs)
			fmt.Fprintf(&sb, "Definition cases : list (N * utoken * bstr) := %s.\n", body)
			sb.WriteString("Definition M := Eval vm_compute in check_tokens cases.\nPrint M.\n")
			if err := writeFile(o.out, fmt.Sprintf("cases_C07_%02d.v", k), sb.String()); err != nil {
				return err
			}
		}
		if err := writeSignShardsFn(o.out, "C07", "check_input_memo", signCases, signDids, shards); err != nil {
			return err
		}
		keysSorted := make([]string, 0, len(optHist))
		for k := range optHist {
			keysSorted = append(keysSorted, k)
		}
		sort.Strings(keysSorted)
		// ---- RSA: a signature whose first octet is zero must not verify with that octet stripped (and the length
		// prefix adjusted): the raw signature is exactly as long as the modulus
		zeroStripped := 0
		for _, iss := range []*Prin{keys[2], keys[3]} {
			for try := 0; try < 4000 && zeroStripped < 4; try++ {
				d, err := delegation.Delegate(iss.Signer, keys[0].DID, []ucan.Capability[ucan.CaveatBuilder]{
					ucan.NewCapability[ucan.CaveatBuilder]("store/add", iss.DID.String(), Cav{})}, delegation.WithNoExpiration(), delegation.WithNonce(fmt.Sprintf("z%d", try)))
				if err != nil {
					break
				}
				raw := d.Signature().Raw()
				if len(raw) == 0 || raw[0] != 0 {
					continue
				}
				zeroStripped++
				m := *d.Data().Model()
				m.S = signature.NewSignature(d.Signature().Code(), raw[1:]).Bytes()
				ad, _, err := reDecode(&m)
				if err != nil {
					continue
				}
				nalter++
				altHist["rsa-sig-leading-zero-stripped"]++
				if okv, verr := ucan.VerifySignature(ad.Data(), iss.Real); verr == nil && okv {
					direct = append(direct, map[string]any{"token": -1, "label": "RSA issuer " + iss.Name, "key": "verifies-after-altering:rsa-sig-leading-zero-stripped",
						"what": "token still verifies after stripping the leading zero octet of its RSA signature", "root_hex": fmt.Sprintf("%x", ad.Root().Bytes())})
				}
			}
		}
		// ---- ONE signer used from many goroutines at once (a worker pool issuing with the service key): every token
		// verifies — per-signer scratch state (a shared hasher, a reused buffer) shows only here
		nconc := 0
		for _, iss := range []*Prin{keys[0], keys[2]} {
			var wg sync.WaitGroup
			var cmu sync.Mutex
			bad, panics := 0, 0
			for g := 0; g < 16; g++ {
				wg.Add(1)
				go func(g int) {
					defer wg.Done()
					for k := 0; k < 150; k++ {
						var d delegation.Delegation
						var err error
						okv := false
						p := recovered(func() {
							d, err = delegation.Delegate(iss.Signer, keys[1].DID, []ucan.Capability[ucan.CaveatBuilder]{
								ucan.NewCapability[ucan.CaveatBuilder]("store/add", iss.DID.String(), Cav{Max: i64(int64(g*1000 + k))})},
								delegation.WithNoExpiration(), delegation.WithNonce(fmt.Sprint("conc", g, "-", k)))
							if err == nil && d != nil {
								okv, _ = ucan.VerifySignature(d.Data(), iss.Real)
							}
						})
						cmu.Lock()
						nconc++
						if p != nil {
							panics++
						} else if !okv {
							bad++
						}
						cmu.Unlock()
					}
				}(g)
			}
			wg.Wait()
			nverify += 2400
			if bad+panics > 0 {
				direct = append(direct, map[string]any{"token": -1, "label": "concurrent issuing, signer " + iss.Name, "key": "issued-concurrently-does-not-verify",
					"what": fmt.Sprintf("%d of 2400 tokens issued with ONE %s signer from 16 goroutines at once do not verify against it (%d more panicked while issuing)", bad, iss.Name, panics)})
			}
		}
		covDirect, covRuns := covC07(o.seed) // gen_cov.go: default expiration, facts, reserved-form facts, failing builders
		direct = append(direct, covDirect...)
		nverify += covRuns
		return writeJSON(o.out, "stats.json", map[string]any{"tokens": n, "verify_calls": nverify, "alterations_checked": nalter,
			"option_masks_covered": len(optHist), "alteration_histogram": altHist, "collision_histogram": collHist, "sign_cases": len(signCases), "issue_refused": nrefused, "direct_violations": direct, "samples": samples, "issued_but_undecodable": undecodable,
			"value_kinds": cst})
	}
}

var _ = cid.Undef


// formatSignPayload calls formatter.FormatSignPayload through reflection, so that the harness still builds — and can
// look for a token that no longer verifies or verifies wrongly — when that helper's parameter list changes
// (payload, version, algorithm today; a variant that takes no version is called with (payload, algorithm)).
func formatSignPayload(p pdm.PayloadModel, version, alg string) (string, error) {
	f := reflect.ValueOf(formatter.FormatSignPayload)
	var args []reflect.Value
	switch f.Type().NumIn() {
	case 3:
		args = []reflect.Value{reflect.ValueOf(p), reflect.ValueOf(version), reflect.ValueOf(alg)}
	case 2:
		args = []reflect.Value{reflect.ValueOf(p), reflect.ValueOf(alg)}
	default:
		return "", fmt.Errorf("formatter.FormatSignPayload takes %d parameters", f.Type().NumIn())
	}
	for i, a := range args {
		if !a.Type().AssignableTo(f.Type().In(i)) {
			return "", fmt.Errorf("formatter.FormatSignPayload: parameter %d is a %s", i, f.Type().In(i))
		}
	}
	out := f.Call(args)
	if len(out) != 2 {
		return "", fmt.Errorf("formatter.FormatSignPayload returns %d values", len(out))
	}
	var err error
	if e, ok := out[1].Interface().(error); ok {
		err = e
	}
	return out[0].String(), err
}
